#!/bin/bash
# Build the vp harness (links s4lib from /repo working tree, hooks on).
set -e
cd /verif/harness
export CARGO_NET_OFFLINE=true
export RUSTFLAGS="--cfg s4_verif -Awarnings"
cargo build --release --offline -p vp 2>&1 | grep -v "^warning\|^\s*$" >&2 || true
test -x /verif/harness/target/release/vp
