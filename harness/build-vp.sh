#!/bin/bash
# Build the vp harness (links s4lib from /repo working tree, hooks on).
cd /verif/harness || exit 2
export CARGO_NET_OFFLINE=true
export RUSTFLAGS="--cfg s4_verif -Awarnings"
cargo build --release --offline -p vp >/verif/harness/locks/cargo-vp.log 2>&1
rc=$?
grep -v "^warning\|^\s*$" /verif/harness/locks/cargo-vp.log | tail -40 >&2
[ $rc -eq 0 ] || exit $rc
test -x /verif/harness/target/release/vp
