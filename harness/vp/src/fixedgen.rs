//! G-fixedstruct: synthesised utmp/wtmp/btmp, lastlog and acct record files for every supported layout.
//! Offsets and sizes are taken from the public struct definitions of s4lib (layout only); the oracle
//! (ordering, null handling, field values) is independent.

use proptest::prelude::*;
use s4lib::data::fixedstruct as fs;
use serde::{Deserialize, Serialize};
use std::mem::{offset_of, size_of};

#[derive(Clone, Debug)]
pub struct StrField {
    /// name printed by s4 before the value
    pub name: &'static str,
    pub off: usize,
    pub cap: usize,
}

#[derive(Clone, Debug)]
pub struct Layout {
    pub id: &'static str,
    /// `fixedstructtype` as shown in --summary
    pub summary_name: &'static str,
    /// a file name that selects this family of layouts
    pub fname: &'static str,
    pub size: usize,
    pub sec: (usize, usize),
    pub usec: Option<(usize, usize)>,
    /// printed name of the time field
    pub time_name: &'static str,
    pub strs: Vec<StrField>,
    pub pid: Option<(&'static str, usize)>,
    /// (offset, width, number of valid values starting at `first`, first)
    pub typ: Option<(usize, usize, i16, i16)>,
    /// byte that must be non-zero for plausibility (acct_v3 ac_version), with value
    pub nonzero: Option<(usize, u8)>,
    /// offset of the four 32-bit words of `ut_addr_v6` (Linux utmpx layouts)
    pub addr: Option<usize>,
}

macro_rules! sf {
    ($name:expr, $t:ty, $f:ident) => {
        StrField { name: $name, off: offset_of!($t, $f), cap: size_of::<[i8; 0]>() + field_size!($t, $f) }
    };
}
macro_rules! field_size {
    ($t:ty, $f:ident) => {{
        fn sz<T, F>(_: fn(&T) -> &F) -> usize {
            size_of::<F>()
        }
        sz(|x: &$t| &x.$f)
    }};
}

pub fn layouts() -> Vec<Layout> {
    vec![
        Layout {
            id: "linux_x86_utmpx",
            summary_name: "Fs_Linux_x86_Utmpx",
            fname: "wtmp",
            size: size_of::<fs::linux_x86::utmpx>(),
            sec: (offset_of!(fs::linux_x86::utmpx, ut_tv) + 0, 4),
            usec: Some((offset_of!(fs::linux_x86::utmpx, ut_tv) + 4, 4)),
            time_name: "ut_xtime",
            strs: vec![
                sf!("ut_line", fs::linux_x86::utmpx, ut_line),
                sf!("ut_id", fs::linux_x86::utmpx, ut_id),
                sf!("ut_user", fs::linux_x86::utmpx, ut_user),
                sf!("ut_host", fs::linux_x86::utmpx, ut_host),
            ],
            pid: Some(("ut_pid", offset_of!(fs::linux_x86::utmpx, ut_pid))),
            typ: Some((offset_of!(fs::linux_x86::utmpx, ut_type), 2, 8, 1)),
            nonzero: None,
            addr: Some(offset_of!(fs::linux_x86::utmpx, ut_addr_v6)),
        },
        Layout {
            id: "linux_arm64_utmpx",
            summary_name: "Fs_Linux_Arm64Aarch64_Utmpx",
            fname: "wtmp",
            size: size_of::<fs::linux_arm64aarch64::utmpx>(),
            sec: (offset_of!(fs::linux_arm64aarch64::utmpx, ut_tv), 8),
            usec: Some((offset_of!(fs::linux_arm64aarch64::utmpx, ut_tv) + 8, 8)),
            time_name: "ut_tv",
            strs: vec![
                sf!("ut_line", fs::linux_arm64aarch64::utmpx, ut_line),
                sf!("ut_id", fs::linux_arm64aarch64::utmpx, ut_id),
                sf!("ut_user", fs::linux_arm64aarch64::utmpx, ut_user),
                sf!("ut_host", fs::linux_arm64aarch64::utmpx, ut_host),
            ],
            pid: Some(("ut_pid", offset_of!(fs::linux_arm64aarch64::utmpx, ut_pid))),
            typ: Some((offset_of!(fs::linux_arm64aarch64::utmpx, ut_type), 2, 8, 1)),
            nonzero: None,
            addr: Some(offset_of!(fs::linux_arm64aarch64::utmpx, ut_addr_v6)),
        },
        Layout {
            id: "freebsd_x8664_utmpx",
            summary_name: "Fs_Freebsd_x8664_Utmpx",
            fname: "utmpx",
            size: size_of::<fs::freebsd_x8664::utmpx>(),
            sec: (offset_of!(fs::freebsd_x8664::utmpx, ut_tv), 8),
            usec: Some((offset_of!(fs::freebsd_x8664::utmpx, ut_tv) + 8, 8)),
            time_name: "ut_tv",
            strs: vec![
                sf!("ut_id", fs::freebsd_x8664::utmpx, ut_id),
                sf!("ut_user", fs::freebsd_x8664::utmpx, ut_user),
                sf!("ut_line", fs::freebsd_x8664::utmpx, ut_line),
                sf!("ut_host", fs::freebsd_x8664::utmpx, ut_host),
            ],
            pid: Some(("ut_pid", offset_of!(fs::freebsd_x8664::utmpx, ut_pid))),
            typ: Some((offset_of!(fs::freebsd_x8664::utmpx, ut_type), 2, 8, 1)),
            nonzero: None,
            addr: None,
        },
        Layout {
            id: "netbsd_x8632_utmpx",
            summary_name: "Fs_Netbsd_x8632_Utmpx",
            fname: "wtmpx",
            size: size_of::<fs::netbsd_x8632::utmpx>(),
            sec: (offset_of!(fs::netbsd_x8632::utmpx, ut_tv), 8),
            usec: Some((offset_of!(fs::netbsd_x8632::utmpx, ut_tv) + 8, 4)),
            time_name: "ut_tv",
            strs: vec![
                sf!("ut_name", fs::netbsd_x8632::utmpx, ut_name),
                sf!("ut_id", fs::netbsd_x8632::utmpx, ut_id),
                sf!("ut_line", fs::netbsd_x8632::utmpx, ut_line),
                sf!("ut_host", fs::netbsd_x8632::utmpx, ut_host),
            ],
            pid: Some(("ut_pid", offset_of!(fs::netbsd_x8632::utmpx, ut_pid))),
            typ: Some((offset_of!(fs::netbsd_x8632::utmpx, ut_type), 2, 8, 1)),
            nonzero: None,
            addr: None,
        },
        Layout {
            id: "netbsd_x8664_utmpx",
            summary_name: "Fs_Netbsd_x8664_Utmpx",
            fname: "wtmpx",
            size: size_of::<fs::netbsd_x8664::utmpx>(),
            sec: (offset_of!(fs::netbsd_x8664::utmpx, ut_tv), 8),
            usec: Some((offset_of!(fs::netbsd_x8664::utmpx, ut_tv) + 8, 4)),
            time_name: "ut_tv",
            strs: vec![
                sf!("ut_user", fs::netbsd_x8664::utmpx, ut_user),
                sf!("ut_id", fs::netbsd_x8664::utmpx, ut_id),
                sf!("ut_line", fs::netbsd_x8664::utmpx, ut_line),
                sf!("ut_host", fs::netbsd_x8664::utmpx, ut_host),
            ],
            pid: Some(("ut_pid", offset_of!(fs::netbsd_x8664::utmpx, ut_pid))),
            typ: Some((offset_of!(fs::netbsd_x8664::utmpx, ut_type), 2, 8, 1)),
            nonzero: None,
            addr: None,
        },
        Layout {
            id: "netbsd_x8664_utmp",
            summary_name: "Fs_Netbsd_x8664_Utmp",
            fname: "utmp",
            size: size_of::<fs::netbsd_x8664::utmp>(),
            sec: (offset_of!(fs::netbsd_x8664::utmp, ut_time), 8),
            usec: None,
            time_name: "ut_time",
            strs: vec![
                sf!("ut_line", fs::netbsd_x8664::utmp, ut_line),
                sf!("ut_name", fs::netbsd_x8664::utmp, ut_name),
                sf!("ut_host", fs::netbsd_x8664::utmp, ut_host),
            ],
            pid: None,
            typ: None,
            nonzero: None,
            addr: None,
        },
        Layout {
            id: "openbsd_x86_utmp",
            summary_name: "Fs_Openbsd_x86_Utmp",
            fname: "utmp",
            size: size_of::<fs::openbsd_x86::utmp>(),
            sec: (offset_of!(fs::openbsd_x86::utmp, ut_time), 8),
            usec: None,
            time_name: "ut_time",
            strs: vec![
                sf!("ut_line", fs::openbsd_x86::utmp, ut_line),
                sf!("ut_name", fs::openbsd_x86::utmp, ut_name),
                sf!("ut_host", fs::openbsd_x86::utmp, ut_host),
            ],
            pid: None,
            typ: None,
            nonzero: None,
            addr: None,
        },
        Layout {
            id: "linux_x86_lastlog",
            summary_name: "Fs_Linux_x86_Lastlog",
            fname: "lastlog",
            size: size_of::<fs::linux_x86::lastlog>(),
            sec: (offset_of!(fs::linux_x86::lastlog, ll_time), 4),
            usec: None,
            time_name: "ll_time",
            strs: vec![sf!("ll_line", fs::linux_x86::lastlog, ll_line), sf!("ll_host", fs::linux_x86::lastlog, ll_host)],
            pid: None,
            typ: None,
            nonzero: None,
            addr: None,
        },
        Layout {
            id: "linux_arm64_lastlog",
            summary_name: "Fs_Linux_Arm64Aarch64_Lastlog",
            fname: "lastlog",
            size: size_of::<fs::linux_arm64aarch64::lastlog>(),
            sec: (offset_of!(fs::linux_arm64aarch64::lastlog, ll_time), 8),
            usec: None,
            time_name: "ll_time",
            strs: vec![sf!("ll_line", fs::linux_arm64aarch64::lastlog, ll_line), sf!("ll_host", fs::linux_arm64aarch64::lastlog, ll_host)],
            pid: None,
            typ: None,
            nonzero: None,
            addr: None,
        },
        Layout {
            id: "netbsd_x8664_lastlog",
            summary_name: "Fs_Netbsd_x8664_Lastlog",
            fname: "lastlog",
            size: size_of::<fs::netbsd_x8664::lastlog>(),
            sec: (offset_of!(fs::netbsd_x8664::lastlog, ll_time), 8),
            usec: None,
            time_name: "ll_time",
            strs: vec![sf!("ll_line", fs::netbsd_x8664::lastlog, ll_line), sf!("ll_host", fs::netbsd_x8664::lastlog, ll_host)],
            pid: None,
            typ: None,
            nonzero: None,
            addr: None,
        },
        Layout {
            id: "openbsd_x86_lastlog",
            summary_name: "Fs_Openbsd_x86_Lastlog",
            fname: "lastlog",
            size: size_of::<fs::openbsd_x86::lastlog>(),
            sec: (offset_of!(fs::openbsd_x86::lastlog, ll_time), 8),
            usec: None,
            time_name: "ll_time",
            strs: vec![sf!("ll_line", fs::openbsd_x86::lastlog, ll_line), sf!("ll_host", fs::openbsd_x86::lastlog, ll_host)],
            pid: None,
            typ: None,
            nonzero: None,
            addr: None,
        },
        Layout {
            id: "netbsd_x8632_lastlogx",
            summary_name: "Fs_Netbsd_x8632_Lastlogx",
            fname: "lastlogx",
            size: size_of::<fs::netbsd_x8632::lastlogx>(),
            sec: (offset_of!(fs::netbsd_x8632::lastlogx, ll_tv), 8),
            usec: Some((offset_of!(fs::netbsd_x8632::lastlogx, ll_tv) + 8, 4)),
            time_name: "ll_tv",
            strs: vec![sf!("ll_line", fs::netbsd_x8632::lastlogx, ll_line), sf!("ll_host", fs::netbsd_x8632::lastlogx, ll_host)],
            pid: None,
            typ: None,
            nonzero: None,
            addr: None,
        },
        Layout {
            id: "linux_x86_acct",
            summary_name: "Fs_Linux_x86_Acct",
            fname: "acct",
            size: size_of::<fs::linux_x86::acct>(),
            sec: (offset_of!(fs::linux_x86::acct, ac_btime), 4),
            usec: None,
            time_name: "ac_btime",
            strs: vec![sf!("ac_comm", fs::linux_x86::acct, ac_comm)],
            pid: None,
            typ: None,
            nonzero: None,
            addr: None,
        },
        Layout {
            id: "linux_x86_acct_v3",
            summary_name: "Fs_Linux_x86_Acct_v3",
            fname: "pacct",
            size: size_of::<fs::linux_x86::acct_v3>(),
            sec: (offset_of!(fs::linux_x86::acct_v3, ac_btime), 4),
            usec: None,
            time_name: "ac_btime",
            strs: vec![sf!("ac_comm", fs::linux_x86::acct_v3, ac_comm)],
            pid: Some(("ac_pid", offset_of!(fs::linux_x86::acct_v3, ac_pid))),
            typ: None,
            nonzero: Some((offset_of!(fs::linux_x86::acct_v3, ac_version), 3)),
            addr: None,
        },
        Layout {
            id: "netbsd_x8632_acct",
            summary_name: "Fs_Netbsd_x8632_Acct",
            fname: "acct",
            size: size_of::<fs::netbsd_x8632::acct>(),
            sec: (offset_of!(fs::netbsd_x8632::acct, ac_btime), 8),
            usec: None,
            time_name: "ac_btime",
            strs: vec![sf!("ac_comm", fs::netbsd_x8632::acct, ac_comm)],
            pid: None,
            typ: None,
            nonzero: None,
            addr: None,
        },
    ]
}

#[derive(Clone, Debug, Serialize, Deserialize, PartialEq, Eq)]
pub struct FRec {
    pub sec: i64,
    pub usec: i64,
    /// 0 = ordinary record; 1 = all 0x00; 2 = all 0xFF; 3 = valid fields but time (0,0)
    pub null: u8,
    pub pid: i32,
    pub typ: i16,
    /// unique serial used to build the string field values
    pub serial: u32,
    /// bit i set: string field i uses the full field width (no NUL terminator), as `__attribute_nonstring__` allows
    #[serde(default)]
    pub full: u8,
    /// bit i set: string field i carries stale non-NUL bytes behind its NUL terminator (a re-used utmp slot);
    /// the value of the field still ends at the first NUL
    #[serde(default)]
    pub stale: u8,
    /// the four words of `ut_addr_v6` (layouts that have the field): words 1..3 zero = an IPv4 address in word 0
    #[serde(default)]
    pub addr: [u32; 4],
}

#[derive(Clone, Debug, Serialize, Deserialize, PartialEq, Eq)]
pub struct FixedFile {
    pub layout: usize,
    pub recs: Vec<FRec>,
}

fn put(buf: &mut [u8], off: usize, width: usize, v: i64) {
    let b = v.to_le_bytes();
    buf[off..off + width].copy_from_slice(&b[..width]);
}

/// value of string field `field_idx` of a record: unique marker, optionally padded to the full field width
pub fn str_value_full(field_idx: usize, serial: u32, cap: usize, full: u8) -> String {
    let mut s = str_value(field_idx, serial, cap);
    if full & (1 << field_idx) != 0 {
        while s.len() < cap {
            s.push('z');
        }
    }
    s
}

pub fn str_value(field_idx: usize, serial: u32, cap: usize) -> String {
    // unique per (field, serial); at most cap-1 bytes; letters only
    let mut s = String::new();
    s.push((b'p' + field_idx as u8) as char);
    s.push_str(&crate::textgen::letters(serial as usize));
    if s.len() > cap - 1 {
        // small fields (ut_id has 4 bytes): drop the field letter and use base-26 only
        s = crate::textgen::letters(serial as usize);
        s.truncate(cap - 1);
    }
    s
}

impl FixedFile {
    pub fn lay(&self) -> Layout {
        layouts()[self.layout % layouts().len()].clone()
    }
    pub fn render(&self) -> Vec<u8> {
        let l = self.lay();
        let mut out = Vec::with_capacity(l.size * self.recs.len());
        for r in &self.recs {
            let mut b = vec![0u8; l.size];
            match r.null {
                1 => {}
                2 => {
                    for x in b.iter_mut() {
                        *x = 0xFF;
                    }
                }
                _ => {
                    let (sec, usec) = if r.null == 3 { (0, 0) } else { (r.sec, r.usec) };
                    put(&mut b, l.sec.0, l.sec.1, sec);
                    if let Some((o, w)) = l.usec {
                        put(&mut b, o, w, usec);
                    }
                    for (i, f) in l.strs.iter().enumerate() {
                        let s = str_value_full(i, r.serial, f.cap, r.full);
                        b[f.off..f.off + s.len()].copy_from_slice(s.as_bytes());
                        if r.stale & (1 << i) != 0 {
                            for (k, x) in b[f.off + s.len()..f.off + f.cap].iter_mut().enumerate().skip(1) {
                                *x = b"QRST"[k % 4];
                            }
                        }
                    }
                    if let Some((_, o)) = l.pid {
                        put(&mut b, o, 4, r.pid as i64);
                    }
                    if let Some((o, w, n, first)) = l.typ {
                        put(&mut b, o, w, (first + r.typ.rem_euclid(n)) as i64);
                    }
                    if let Some((o, v)) = l.nonzero {
                        b[o] = v;
                    }
                    if let Some(o) = l.addr {
                        for (k, w) in r.addr.iter().enumerate() {
                            b[o + 4 * k..o + 4 * k + 4].copy_from_slice(&w.to_le_bytes());
                        }
                    }
                }
            }
            out.extend_from_slice(&b);
        }
        out
    }
    /// is record i non-null (must be printed)
    pub fn live(&self, i: usize) -> bool {
        self.recs[i].null == 0
    }
    /// (sec, usec) effectively stored (layouts without usec store 0)
    pub fn tv(&self, i: usize) -> (i64, i64) {
        let l = self.lay();
        (self.recs[i].sec, if l.usec.is_some() { self.recs[i].usec } else { 0 })
    }
    /// instant in ns
    pub fn t_ns(&self, i: usize) -> i64 {
        let (s, u) = self.tv(i);
        s * 1_000_000_000 + u * 1000
    }
    /// expected print order: live records, stable-sorted by time value
    pub fn expected_order(&self) -> Vec<usize> {
        let mut v: Vec<usize> = (0..self.recs.len()).filter(|&i| self.live(i)).collect();
        v.sort_by_key(|&i| self.tv(i));
        v
    }
}

pub fn fixed_file(max_recs: usize, layouts_allowed: Vec<usize>) -> BoxedStrategy<FixedFile> {
    let rec = (
        // -1: the record sits in the first second of the epoch (tv_sec == 0) with a non-zero microsecond part — a live
        // record, unlike time (0,0); only for layouts that store microseconds (elsewhere it is an ordinary record)
        prop_oneof![12 => 0i64..6, 8 => 0i64..200, 4 => 0i64..100_000, 1 => Just(-1i64)],
        prop_oneof![2 => Just(0i64), 1 => Just(1i64), 1 => Just(999_999i64), 2 => 0i64..1_000_000],
        prop_oneof![12 => Just(0u8), 1 => Just(1u8), 1 => Just(2u8), 1 => Just(3u8)],
        1i32..60000,
        0i16..8,
        prop_oneof![9 => Just(0u8), 1 => 1u8..16],
        prop_oneof![9 => Just(0u8), 1 => 1u8..16],
        // ut_addr_v6: mostly absent, else an IPv4 word or an IPv6 address with any subset of words 1..3 zero
        prop_oneof![
            6 => Just([0u32; 4]),
            2 => any::<u32>().prop_map(|a| [a, 0, 0, 0]),
            3 => (any::<u32>(), prop_oneof![Just(0u32), any::<u32>()], prop_oneof![Just(0u32), any::<u32>()], prop_oneof![Just(0u32), 1u32..4, any::<u32>()]).prop_map(|(a, b, c, d)| [a, b, c, d]),
        ],
    );
    (prop::sample::select(layouts_allowed), 1_000_000_000i64..1_800_000_000, prop::collection::vec(rec, 1..=max_recs))
        .prop_map(|(layout, base, recs)| FixedFile {
            layout,
            recs: recs.into_iter().enumerate().map(|(i, (ds, usec, null, pid, typ, full, stale, addr))| FRec { sec: if ds < 0 { -1 } else { base + ds }, usec, null, pid, typ, serial: i as u32, full, stale, addr }).collect(),
        })
        .prop_map(|mut f| {
            let has_usec = f.lay().usec.is_some();
            let fallback = f.recs.iter().map(|r| r.sec).filter(|s| *s >= 0).min().unwrap_or(1_234_567_890);
            for r in f.recs.iter_mut() {
                if r.sec < 0 {
                    if has_usec {
                        r.sec = 0;
                        r.usec = r.usec.max(1);
                    } else {
                        r.sec = fallback;
                    }
                }
            }
            f
        })
        .boxed()
}
