//! Datetime windows placed relative to message instants.

use crate::dt;
use proptest::prelude::*;
use serde::{Deserialize, Serialize};

#[derive(Clone, Debug, Serialize, Deserialize, PartialEq, Eq)]
pub struct BoundSpec {
    /// position among the instants, mapped monotonically: idx = pos*(n+1) >> 16 ; idx == n means "after the last"
    pub pos: u16,
    /// offset from that instant in microseconds
    pub delta_us: i64,
}

#[derive(Clone, Debug, Serialize, Deserialize, PartialEq, Eq)]
pub struct WinSpec {
    pub a: Option<BoundSpec>,
    pub b: Option<BoundSpec>,
    /// force A = B (uses `a`)
    pub a_eq_b: bool,
}

#[derive(Clone, Copy, Debug, PartialEq, Eq)]
pub struct Window {
    pub a: Option<i64>,
    pub b: Option<i64>,
}

impl Window {
    pub fn none() -> Window {
        Window { a: None, b: None }
    }
    pub fn contains(&self, t: i64) -> bool {
        self.a.map(|a| a <= t).unwrap_or(true) && self.b.map(|b| t <= b).unwrap_or(true)
    }
    /// CLI arguments (UTC, microsecond resolution, explicit offset)
    pub fn args(&self) -> Vec<String> {
        let mut v = vec![];
        if let Some(a) = self.a {
            v.push("-a".to_string());
            v.push(bound_arg(a));
        }
        if let Some(b) = self.b {
            v.push("-b".to_string());
            v.push(bound_arg(b));
        }
        v
    }
    /// a bound equals some instant
    pub fn on_instant(&self, instants: &[i64]) -> bool {
        instants.iter().any(|&t| Some(t) == self.a || Some(t) == self.b)
    }
}

/// The command-line text of a bound. The same instant is written in a UTC offset that is a pure function of the
/// instant (one third of the bounds in +00:00, the others in a quarter-hour step of -12:00..+14:00), so that every check
/// that applies a window also exercises the conversion of a bound's offset by the reader it is handed to.
pub fn bound_arg(t_ns: i64) -> String {
    let x = ((t_ns as u64) / 1000).wrapping_mul(0x9E37_79B9_7F4A_7C15) >> 32;
    let off: i32 = if x % 3 == 0 { 0 } else { (((x / 3) % 105) as i32 - 48) * 900 };
    let c = dt::civil(t_ns as i128, off);
    format!("{}{}", dt::strftime(&c, t_ns as i128, "%Y-%m-%dT%H:%M:%S.%6f"), dt::off_colon(off))
}

const MIN_T: i64 = 86_400 * 2 * 1_000_000_000;
const MAX_T: i64 = 4_102_300_000 * 1_000_000_000;

fn resolve_bound(b: &BoundSpec, instants: &[i64]) -> i64 {
    let n = instants.len();
    let idx = (b.pos as usize * (n + 1)) >> 16;
    let base = if n == 0 {
        1_600_000_000_000_000_000
    } else if idx >= n {
        instants[n - 1] + 1_000_000_000
    } else {
        instants[idx]
    };
    // bounds have microsecond resolution on the command line: floor the base to a microsecond
    let base = base - base.rem_euclid(1000);
    (base + b.delta_us * 1000).clamp(MIN_T, MAX_T)
}

impl WinSpec {
    pub fn resolve(&self, instants: &[i64]) -> Window {
        let mut a = self.a.as_ref().map(|b| resolve_bound(b, instants));
        let mut b = self.b.as_ref().map(|b| resolve_bound(b, instants));
        if self.a_eq_b {
            if a.is_some() {
                b = a;
            } else {
                a = b;
            }
        }
        if let (Some(x), Some(y)) = (a, b) {
            if x > y {
                a = Some(y);
                b = Some(x);
            }
        }
        Window { a, b }
    }
}

pub fn bound_spec() -> BoxedStrategy<BoundSpec> {
    (
        any::<u16>(),
        prop_oneof![
            6 => Just(0i64),
            2 => Just(1i64),
            2 => Just(-1i64),
            1 => Just(1000i64),
            1 => Just(-1000i64),
            1 => Just(1_000_000i64),
            1 => Just(-1_000_000i64),
            1 => -3_600_000_000i64..3_600_000_000,
            1 => -400_000_000_000i64..400_000_000_000,
        ],
    )
        .prop_map(|(pos, delta_us)| BoundSpec { pos, delta_us })
        .boxed()
}

pub fn win_spec() -> BoxedStrategy<WinSpec> {
    prop_oneof![
        4 => (bound_spec(), bound_spec()).prop_map(|(a, b)| WinSpec { a: Some(a), b: Some(b), a_eq_b: false }),
        2 => bound_spec().prop_map(|a| WinSpec { a: Some(a), b: None, a_eq_b: false }),
        2 => bound_spec().prop_map(|b| WinSpec { a: None, b: Some(b), a_eq_b: false }),
        1 => bound_spec().prop_map(|a| WinSpec { a: Some(a), b: None, a_eq_b: true }),
    ]
    .boxed()
}

pub fn win_spec_or_none() -> BoxedStrategy<Option<WinSpec>> {
    prop_oneof![1 => Just(None), 2 => win_spec().prop_map(Some)].boxed()
}
