//! Running the real `s4` binary under a watchdog, in private scratch directories.

use std::ffi::OsString;
use std::io::{Read, Write};
use std::path::{Path, PathBuf};
use std::process::{Command, Stdio};
use std::sync::atomic::{AtomicU64, Ordering};
use std::time::{Duration, Instant};

pub fn s4_bin() -> PathBuf {
    std::env::var_os("VP_S4_BIN").map(PathBuf::from).unwrap_or_else(|| PathBuf::from("/verif/harness/target-s4/release/s4"))
}

#[derive(Debug, Clone)]
pub struct RunOut {
    pub status: Option<i32>,
    pub signal: Option<i32>,
    pub stdout: Vec<u8>,
    pub stderr: Vec<u8>,
    pub wall: Duration,
    /// watchdog fired
    pub timed_out: bool,
    /// when timed out: process consumed no CPU over the sampling window and all threads sleeping
    pub deadlocked: bool,
    /// the CPU-time limit was exceeded (busy hang); implies timed_out
    pub cpu_exceeded: bool,
    /// gdb backtrace taken when the run was stopped as a hang (empty when not requested or gdb is unavailable)
    pub hang_backtrace: String,
}

impl RunOut {
    pub fn ok01(&self) -> bool {
        !self.timed_out && self.signal.is_none() && matches!(self.status, Some(0) | Some(1))
    }
    pub fn stderr_str(&self) -> String {
        String::from_utf8_lossy(&self.stderr).into_owned()
    }
    pub fn panicked(&self) -> bool {
        let s = self.stderr_str();
        s.contains("panicked at") || s.contains("RUST_BACKTRACE") || s.contains("stack overflow")
    }
}

pub struct RunSpec<'a> {
    pub args: Vec<OsString>,
    pub stdin: Option<&'a [u8]>,
    pub env: Vec<(String, String)>,
    pub cwd: Option<&'a Path>,
    pub tmpdir: Option<&'a Path>,
    pub timeout: Duration,
    /// send this signal after this delay
    pub signal_after: Option<(Duration, i32)>,
    /// CPU time (all threads) after which the run counts as a busy hang; load-independent, unlike the wall clock
    pub cpu_limit: Option<Duration>,
    /// when the CPU limit or the watchdog fires: take a backtrace of all threads with gdb before killing the process
    /// (used to attribute a hang to its call site)
    pub backtrace_on_hang: bool,
}

impl<'a> Default for RunSpec<'a> {
    fn default() -> Self {
        RunSpec { args: vec![], stdin: None, env: vec![], cwd: None, tmpdir: None, timeout: Duration::from_secs(60), signal_after: None, cpu_limit: None, backtrace_on_hang: false }
    }
}

pub static RUNS: AtomicU64 = AtomicU64::new(0);

fn cpu_ticks(pid: u32) -> Option<(u64, bool)> {
    // sum utime+stime over all tasks; all_sleeping if every task state is S or D(no)...
    let mut total = 0u64;
    let mut all_sleep = true;
    let dir = std::fs::read_dir(format!("/proc/{}/task", pid)).ok()?;
    for e in dir.flatten() {
        let s = std::fs::read_to_string(e.path().join("stat")).ok()?;
        let rp = s.rfind(')')?;
        let f: Vec<&str> = s[rp + 2..].split(' ').collect();
        // f[0]=state, f[11]=utime f[12]=stime (fields 14,15 1-based; after comm fields start at 3)
        if f.len() < 13 {
            return None;
        }
        if f[0] != "S" {
            all_sleep = false;
        }
        total += f[11].parse::<u64>().ok()? + f[12].parse::<u64>().ok()?;
    }
    Some((total, all_sleep))
}

fn gdb_backtrace(pid: u32) -> String {
    // the process is stopped first so that the backtrace is a consistent snapshot and memory stops growing
    unsafe {
        libc::kill(pid as i32, libc::SIGSTOP);
    }
    let mut last = String::new();
    for _ in 0..3 {
        let o = Command::new("gdb").args(["-p", &pid.to_string(), "-batch", "-ex", "thread apply all bt 60"]).stdin(Stdio::null()).output();
        match o {
            Ok(o) => {
                let out = String::from_utf8_lossy(&o.stdout).to_string();
                if out.contains("Thread ") && out.contains("#0") {
                    return out;
                }
                last = format!("gdb gave no backtrace: stdout {:?} stderr {:?}", &out[..out.len().min(200)], String::from_utf8_lossy(&o.stderr).chars().take(300).collect::<String>());
            }
            Err(e) => last = format!("gdb could not be run: {}", e),
        }
        std::thread::sleep(Duration::from_millis(500));
    }
    last
}

pub fn run_s4(spec: RunSpec) -> RunOut {
    run_bin(&s4_bin(), spec)
}

pub fn run_bin(bin: &Path, spec: RunSpec) -> RunOut {
    RUNS.fetch_add(1, Ordering::Relaxed);
    let mut cmd = Command::new(bin);
    cmd.args(&spec.args);
    cmd.env_clear();
    cmd.env("TZ", "UTC");
    cmd.env("PATH", "/usr/bin:/bin");
    cmd.env("LANG", "C.UTF-8");
    if let Some(t) = spec.tmpdir {
        cmd.env("TMPDIR", t);
    }
    for (k, v) in &spec.env {
        cmd.env(k, v);
    }
    if let Some(c) = spec.cwd {
        cmd.current_dir(c);
    }
    // a child must not outlive the harness (a killed harness once left busy-looping children behind for hours)
    unsafe {
        use std::os::unix::process::CommandExt;
        cmd.pre_exec(|| {
            libc::prctl(libc::PR_SET_PDEATHSIG, libc::SIGKILL);
            Ok(())
        });
    }
    cmd.stdin(if spec.stdin.is_some() { Stdio::piped() } else { Stdio::null() });
    cmd.stdout(Stdio::piped());
    cmd.stderr(Stdio::piped());
    let t0 = Instant::now();
    let mut child = cmd.spawn().unwrap_or_else(|e| {
        eprintln!("vp: cannot spawn {:?}: {}", bin, e);
        std::process::exit(2)
    });
    let pid = child.id();
    let mut so = child.stdout.take().unwrap();
    let mut se = child.stderr.take().unwrap();
    let th_o = std::thread::spawn(move || {
        let mut v = Vec::new();
        let _ = so.read_to_end(&mut v);
        v
    });
    let th_e = std::thread::spawn(move || {
        let mut v = Vec::new();
        let _ = se.read_to_end(&mut v);
        v
    });
    if let Some(data) = spec.stdin {
        let mut si = child.stdin.take().unwrap();
        let data = data.to_vec();
        std::thread::spawn(move || {
            let _ = si.write_all(&data);
        });
    }
    let mut timed_out = false;
    let mut deadlocked = false;
    let mut signalled = false;
    let mut cpu_exceeded = false;
    let mut hang_backtrace = String::new();
    let mut next_cpu_check_ms = 1000u64;
    let status;
    let mut sleep_us = 200u64;
    loop {
        match child.try_wait() {
            Ok(Some(st)) => {
                status = st;
                break;
            }
            Ok(None) => {}
            Err(_) => {}
        }
        let el = t0.elapsed();
        if let Some((d, sig)) = spec.signal_after {
            if !signalled && el >= d {
                unsafe {
                    libc::kill(pid as i32, sig);
                }
                signalled = true;
            }
        }
        if let Some(lim) = spec.cpu_limit {
            if el.as_millis() as u64 >= next_cpu_check_ms {
                next_cpu_check_ms = el.as_millis() as u64 + 500;
                if let Some((ticks, _)) = cpu_ticks(pid) {
                    // USER_HZ is 100 on Linux
                    if ticks * 10 > lim.as_millis() as u64 {
                        timed_out = true;
                        cpu_exceeded = true;
                        if spec.backtrace_on_hang {
                            hang_backtrace = gdb_backtrace(pid);
                        }
                        let _ = child.kill();
                        status = child.wait().unwrap();
                        break;
                    }
                }
            }
        }
        if el > spec.timeout {
            timed_out = true;
            // sample cpu for deadlock classification
            let a = cpu_ticks(pid);
            std::thread::sleep(Duration::from_secs(2));
            let b = cpu_ticks(pid);
            if let (Some((ta, _)), Some((tb, sleeping))) = (a, b) {
                if ta == tb && sleeping {
                    deadlocked = true;
                }
            }
            if spec.backtrace_on_hang && !deadlocked {
                hang_backtrace = gdb_backtrace(pid);
            }
            let _ = child.kill();
            status = child.wait().unwrap();
            break;
        }
        let mut s = sleep_us;
        if let Some((d, _)) = spec.signal_after {
            if !signalled {
                let rem = d.saturating_sub(el).as_micros() as u64;
                s = s.min(rem.max(10));
            }
        }
        std::thread::sleep(Duration::from_micros(s));
        if sleep_us < 5000 {
            sleep_us += sleep_us / 4;
        }
    }
    let wall = t0.elapsed();
    let stdout = th_o.join().unwrap_or_default();
    let stderr = th_e.join().unwrap_or_default();
    use std::os::unix::process::ExitStatusExt;
    RunOut { status: status.code(), signal: status.signal(), stdout, stderr, wall, timed_out, deadlocked, cpu_exceeded, hang_backtrace }
}

/// A private scratch directory removed on drop.
pub struct Scratch {
    pub dir: PathBuf,
}

static SCRATCH_N: AtomicU64 = AtomicU64::new(0);

pub fn scratch_root() -> PathBuf {
    let base = if Path::new("/dev/shm").is_dir() { PathBuf::from("/dev/shm") } else { PathBuf::from("/verif/work") };
    base.join(format!("vp-{}", std::process::id()))
}

impl Scratch {
    pub fn new() -> Scratch {
        let n = SCRATCH_N.fetch_add(1, Ordering::Relaxed);
        let dir = scratch_root().join(format!("c{}", n));
        std::fs::create_dir_all(&dir).expect("scratch dir");
        Scratch { dir }
    }
    pub fn path(&self, name: &str) -> PathBuf {
        self.dir.join(name)
    }
    pub fn write(&self, name: &str, data: &[u8]) -> PathBuf {
        let p = self.dir.join(name);
        if let Some(par) = p.parent() {
            let _ = std::fs::create_dir_all(par);
        }
        std::fs::write(&p, data).expect("scratch write");
        p
    }
    pub fn subdir(&self, name: &str) -> PathBuf {
        let p = self.dir.join(name);
        std::fs::create_dir_all(&p).expect("scratch subdir");
        p
    }
}

impl Drop for Scratch {
    fn drop(&mut self) {
        if std::env::var_os("VP_KEEP").is_some() {
            eprintln!("vp: keeping scratch dir {}", self.dir.display());
            return;
        }
        let _ = std::fs::remove_dir_all(&self.dir);
    }
}

pub fn cleanup_scratch_root() {
    if std::env::var_os("VP_KEEP").is_some() {
        return;
    }
    let _ = std::fs::remove_dir_all(scratch_root());
}

pub fn osargs<I, S>(it: I) -> Vec<OsString>
where
    I: IntoIterator<Item = S>,
    S: Into<OsString>,
{
    it.into_iter().map(|s| s.into()).collect()
}
