//! Independent civil-time arithmetic and strftime-like rendering.
//! Nothing here uses chrono or any code from the repository under test.

pub const NS: i128 = 1_000_000_000;

/// days since 1970-01-01 for a proleptic Gregorian civil date (H. Hinnant)
pub fn days_from_civil(y: i64, m: u32, d: u32) -> i64 {
    let y = if m <= 2 { y - 1 } else { y };
    let era = if y >= 0 { y } else { y - 399 } / 400;
    let yoe = (y - era * 400) as i64;
    let mp = ((m + 9) % 12) as i64;
    let doy = (153 * mp + 2) / 5 + d as i64 - 1;
    let doe = yoe * 365 + yoe / 4 - yoe / 100 + doy;
    era * 146097 + doe - 719468
}

pub fn civil_from_days(z: i64) -> (i64, u32, u32) {
    let z = z + 719468;
    let era = if z >= 0 { z } else { z - 146096 } / 146097;
    let doe = z - era * 146097;
    let yoe = (doe - doe / 1460 + doe / 36524 - doe / 146096) / 365;
    let y = yoe + era * 400;
    let doy = doe - (365 * yoe + yoe / 4 - yoe / 100);
    let mp = (5 * doy + 2) / 153;
    let d = (doy - (153 * mp + 2) / 5 + 1) as u32;
    let m = if mp < 10 { mp + 3 } else { mp - 9 } as u32;
    (if m <= 2 { y + 1 } else { y }, m, d)
}

pub fn is_leap(y: i64) -> bool {
    (y % 4 == 0 && y % 100 != 0) || y % 400 == 0
}

pub fn days_in_month(y: i64, m: u32) -> u32 {
    match m {
        1 | 3 | 5 | 7 | 8 | 10 | 12 => 31,
        4 | 6 | 9 | 11 => 30,
        _ => {
            if is_leap(y) {
                29
            } else {
                28
            }
        }
    }
}

/// Broken-down local time for an instant (ns since epoch UTC) in a fixed offset (seconds east).
#[derive(Clone, Copy, Debug, PartialEq, Eq)]
pub struct Civil {
    pub y: i64,
    pub mo: u32,
    pub d: u32,
    pub h: u32,
    pub mi: u32,
    pub s: u32,
    pub ns: u32,
    pub off: i32,
    /// 0 = Sunday
    pub wd: u32,
}

pub fn civil(t_ns: i128, off_s: i32) -> Civil {
    let local = t_ns + off_s as i128 * NS;
    let secs = local.div_euclid(NS) as i64;
    let ns = local.rem_euclid(NS) as u32;
    let days = secs.div_euclid(86400);
    let sod = secs.rem_euclid(86400) as u32;
    let (y, mo, d) = civil_from_days(days);
    let wd = ((days.rem_euclid(7) + 4) % 7) as u32; // 1970-01-01 was Thursday (4)
    Civil { y, mo, d, h: sod / 3600, mi: sod % 3600 / 60, s: sod % 60, ns, off: off_s, wd }
}

/// instant (ns since epoch) of a civil local time at offset
pub fn instant(y: i64, mo: u32, d: u32, h: u32, mi: u32, s: u32, ns: u32, off_s: i32) -> i128 {
    let days = days_from_civil(y, mo, d);
    let secs = days * 86400 + (h * 3600 + mi * 60 + s) as i64 - off_s as i64;
    secs as i128 * NS + ns as i128
}

pub const MON3: [&str; 12] = ["Jan", "Feb", "Mar", "Apr", "May", "Jun", "Jul", "Aug", "Sep", "Oct", "Nov", "Dec"];
pub const MONLONG: [&str; 12] = [
    "January", "February", "March", "April", "May", "June", "July", "August", "September", "October", "November", "December",
];
pub const WD3: [&str; 7] = ["Sun", "Mon", "Tue", "Wed", "Thu", "Fri", "Sat"];
pub const WDLONG: [&str; 7] = ["Sunday", "Monday", "Tuesday", "Wednesday", "Thursday", "Friday", "Saturday"];

/// numeric offset spellings
pub fn off_colon(off: i32) -> String {
    let sign = if off < 0 { '-' } else { '+' };
    let a = off.abs();
    format!("{}{:02}:{:02}", sign, a / 3600, a % 3600 / 60)
}
pub fn off_nocolon(off: i32) -> String {
    let sign = if off < 0 { '-' } else { '+' };
    let a = off.abs();
    format!("{}{:02}{:02}", sign, a / 3600, a % 3600 / 60)
}
pub fn off_hh(off: i32) -> String {
    let sign = if off < 0 { '-' } else { '+' };
    let a = off.abs();
    format!("{}{:02}", sign, a / 3600)
}

/// A small strftime subset used by the harness to predict `-d FORMAT` output.
/// Supported: %Y %m %d %H %M %S %e %j %y %b %B %a %A %s %f %3f %6f %9f %.3f %.6f %.9f %z %:z %% %T %F %D(no) %n(no)
pub fn strftime(c: &Civil, t_ns: i128, fmt: &str) -> String {
    let mut out = String::new();
    let b = fmt.as_bytes();
    let mut i = 0;
    while i < b.len() {
        if b[i] != b'%' {
            // copy one utf-8 char
            let ch_len = utf8_len(b[i]);
            out.push_str(&fmt[i..i + ch_len]);
            i += ch_len;
            continue;
        }
        i += 1;
        if i >= b.len() {
            out.push('%');
            break;
        }
        let rest = &fmt[i..];
        macro_rules! eat {
            ($lit:expr, $val:expr) => {
                if rest.starts_with($lit) {
                    out.push_str(&$val);
                    i += $lit.len();
                    continue;
                }
            };
        }
        eat!(".3f", format!(".{:03}", c.ns / 1_000_000));
        eat!(".6f", format!(".{:06}", c.ns / 1_000));
        eat!(".9f", format!(".{:09}", c.ns));
        eat!("3f", format!("{:03}", c.ns / 1_000_000));
        eat!("6f", format!("{:06}", c.ns / 1_000));
        eat!("9f", format!("{:09}", c.ns));
        eat!(":z", off_colon(c.off));
        eat!("Y", format!("{:04}", c.y));
        eat!("m", format!("{:02}", c.mo));
        eat!("d", format!("{:02}", c.d));
        eat!("e", format!("{:2}", c.d));
        eat!("H", format!("{:02}", c.h));
        eat!("M", format!("{:02}", c.mi));
        eat!("S", format!("{:02}", c.s));
        eat!("y", format!("{:02}", c.y.rem_euclid(100)));
        eat!("b", MON3[(c.mo - 1) as usize].to_string());
        eat!("B", MONLONG[(c.mo - 1) as usize].to_string());
        eat!("a", WD3[c.wd as usize].to_string());
        eat!("A", WDLONG[c.wd as usize].to_string());
        eat!("s", format!("{}", t_ns.div_euclid(NS)));
        eat!("f", format!("{:09}", c.ns));
        eat!("z", off_nocolon(c.off));
        eat!("T", format!("{:02}:{:02}:{:02}", c.h, c.mi, c.s));
        eat!("F", format!("{:04}-{:02}-{:02}", c.y, c.mo, c.d));
        eat!("%", "%".to_string());
        eat!("j", format!("{:03}", days_from_civil(c.y, c.mo, c.d) - days_from_civil(c.y, 1, 1) + 1));
        // unknown: emit verbatim
        out.push('%');
    }
    out
}

fn utf8_len(b: u8) -> usize {
    if b < 0x80 {
        1
    } else if b >> 5 == 0b110 {
        2
    } else if b >> 4 == 0b1110 {
        3
    } else {
        4
    }
}

#[cfg(test)]
mod tests {
    use super::*;
    #[test]
    fn roundtrip() {
        for z in [-1i64, 0, 1, 59, 365, 11016, 18262, 47481] {
            let (y, m, d) = civil_from_days(z);
            assert_eq!(days_from_civil(y, m, d), z);
        }
        assert_eq!(civil_from_days(0), (1970, 1, 1));
        assert_eq!(days_from_civil(2000, 3, 1), 11017);
        let c = civil(951782400 * NS, 0); // 2000-02-29 00:00:00 UTC, Tuesday
        assert_eq!((c.y, c.mo, c.d, c.wd), (2000, 2, 29, 2));
    }
}
