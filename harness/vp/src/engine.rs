//! Generic driver: replay corpus, probes, parallel proptest search, shrinking,
//! known-finding handling, evidence writing.

use proptest::strategy::{BoxedStrategy, Strategy};
use proptest::test_runner::{Config, RngAlgorithm, TestCaseError, TestError, TestRng, TestRunner};
use serde::de::DeserializeOwned;
use serde::Serialize;
use serde_json::{json, Value};
use std::collections::{BTreeMap, HashSet};
use std::fmt::Debug;
use std::path::{Path, PathBuf};
use std::sync::atomic::{AtomicBool, Ordering};
use std::sync::Mutex;
use std::time::Instant;

#[derive(Clone, Copy, Debug, PartialEq, Eq)]
pub enum Tier {
    Quick,
    Thorough,
}

impl Tier {
    pub fn name(&self) -> &'static str {
        match self {
            Tier::Quick => "quick",
            Tier::Thorough => "thorough",
        }
    }
    pub fn pick<T>(&self, q: T, t: T) -> T {
        match self {
            Tier::Quick => q,
            Tier::Thorough => t,
        }
    }
}

#[derive(Clone, Debug)]
pub enum Verdict {
    Pass,
    /// `sig` is a short stable signature of the failure class (used to match known findings)
    Fail { sig: String, msg: String },
    /// the generated case is outside the property's domain (counted, not failed)
    Discard(String),
    /// infrastructure trouble (watchdog without proof of deadlock, missing tool)
    Inconclusive(String),
}

#[derive(Clone, Debug)]
pub struct Outcome {
    pub verdict: Verdict,
    pub nontrivial: bool,
    /// hash identifying the case for distinctness counting
    pub key: u64,
    pub classes: Vec<String>,
    pub sample: Option<Value>,
    /// sub-evaluations (e.g. process runs) performed inside this case
    pub evals: u64,
}

impl Outcome {
    pub fn pass(nontrivial: bool, key: u64) -> Outcome {
        Outcome { verdict: Verdict::Pass, nontrivial, key, classes: vec![], sample: None, evals: 1 }
    }
    pub fn fail(sig: &str, msg: String) -> Outcome {
        Outcome { verdict: Verdict::Fail { sig: sig.to_string(), msg }, nontrivial: true, key: 0, classes: vec![], sample: None, evals: 1 }
    }
    pub fn discard(why: &str) -> Outcome {
        Outcome { verdict: Verdict::Discard(why.to_string()), nontrivial: false, key: 0, classes: vec![], sample: None, evals: 0 }
    }
    pub fn inconclusive(why: String) -> Outcome {
        Outcome { verdict: Verdict::Inconclusive(why), nontrivial: false, key: 0, classes: vec![], sample: None, evals: 1 }
    }
    pub fn class(mut self, c: &str) -> Outcome {
        self.classes.push(c.to_string());
        self
    }
    pub fn with_sample(mut self, v: Value) -> Outcome {
        self.sample = Some(v);
        self
    }
}

pub struct Ctx {
    pub tier: Tier,
    pub seed: u64,
    /// strict: replaying a single case; print details
    pub verbose: bool,
}

pub trait Property: Sync + Send {
    type Case: Clone + Debug + Serialize + DeserializeOwned + Send + Sync + 'static;
    fn id(&self) -> &'static str;
    fn rule(&self) -> String;
    fn assumptions(&self) -> Vec<String> {
        vec![]
    }
    fn cases(&self, tier: Tier) -> u32;
    fn strategy(&self, tier: Tier) -> BoxedStrategy<Self::Case>;
    fn exec(&self, case: &Self::Case, ctx: &Ctx) -> Outcome;
    /// deterministic cases executed before the random search (regressions, known-finding probes)
    fn probes(&self, _tier: Tier) -> Vec<(String, Self::Case)> {
        vec![]
    }
    /// optional extra phase (fuzz campaign, exhaustive enumeration). Returns extra coverage json + outcomes
    fn extra(&self, _ctx: &Ctx, _stats: &mut Stats) {}
    fn shrink_iters(&self) -> u32 {
        200
    }
    /// the check calls the code under test in-process: keep the case being executed on disk so that a fatal
    /// crash of the harness process (stack overflow, abort) can be attributed to it by ./check
    fn inprocess(&self) -> bool {
        false
    }
}

#[derive(Default)]
pub struct Stats {
    pub evaluations: u64,
    pub cases: u64,
    pub nontrivial_keys: HashSet<u64>,
    pub classes: BTreeMap<String, u64>,
    pub discards: BTreeMap<String, u64>,
    pub samples: Vec<Value>,
    pub inconclusive: Vec<String>,
    pub known_hits: BTreeMap<String, (u64, String)>,
    pub violations: Vec<(String, String, PathBuf)>, // sig, msg, replay
    pub extra: BTreeMap<String, Value>,
}

impl Stats {
    fn absorb(&mut self, o: &Outcome) {
        self.cases += 1;
        self.evaluations += o.evals.max(1);
        for c in &o.classes {
            *self.classes.entry(c.clone()).or_insert(0) += 1;
        }
        match &o.verdict {
            Verdict::Discard(w) => {
                *self.discards.entry(w.clone()).or_insert(0) += 1;
            }
            Verdict::Inconclusive(w) => {
                if self.inconclusive.len() < 20 {
                    self.inconclusive.push(w.clone());
                }
            }
            _ => {}
        }
        if !o.nontrivial && matches!(o.verdict, Verdict::Pass) && self.samples.len() < 2 {
            if let Some(s) = &o.sample {
                self.samples.push(s.clone());
            }
        }
        if o.nontrivial && matches!(o.verdict, Verdict::Pass) {
            let new = self.nontrivial_keys.insert(o.key);
            if new {
                if let Some(s) = &o.sample {
                    if self.samples.len() < 8 {
                        self.samples.push(s.clone());
                    }
                }
            }
        }
    }
}

#[derive(Clone, Debug)]
pub struct KnownFinding {
    pub property: String,
    pub sig: String,
    pub status: String,
    pub what: String,
}

pub fn verif_root() -> PathBuf {
    std::env::var_os("VP_VERIF").map(PathBuf::from).unwrap_or_else(|| PathBuf::from("/verif"))
}

pub fn load_known() -> Vec<KnownFinding> {
    let p = verif_root().join("known_findings.jsonl");
    let mut v = vec![];
    if let Ok(s) = std::fs::read_to_string(&p) {
        for line in s.lines() {
            let line = line.trim();
            if line.is_empty() || line.starts_with('#') {
                continue;
            }
            if let Ok(j) = serde_json::from_str::<Value>(line) {
                v.push(KnownFinding {
                    property: j["property"].as_str().unwrap_or("").to_string(),
                    sig: j["sig"].as_str().unwrap_or("").to_string(),
                    status: j["status"].as_str().unwrap_or("").to_string(),
                    what: j["what"].as_str().unwrap_or("").to_string(),
                });
            }
        }
    }
    v
}

fn known_match<'a>(known: &'a [KnownFinding], id: &str, sig: &str) -> Option<&'a KnownFinding> {
    known.iter().find(|k| k.property == id && k.status == "known" && k.sig == sig)
}

pub fn fnv(data: &[u8]) -> u64 {
    let mut h: u64 = 0xcbf29ce484222325;
    for b in data {
        h ^= *b as u64;
        h = h.wrapping_mul(0x100000001b3);
    }
    h
}

pub fn hash_debug<T: Debug>(t: &T) -> u64 {
    fnv(format!("{:?}", t).as_bytes())
}

fn write_replay<C: Serialize>(id: &str, seed: u64, case: &C, sig: &str, msg: &str) -> PathBuf {
    let dir = verif_root().join("replays");
    let _ = std::fs::create_dir_all(&dir);
    let body = json!({"property": id, "seed": seed, "sig": sig, "msg": msg, "case": case});
    let s = serde_json::to_string_pretty(&body).unwrap();
    let p = dir.join(format!("{}-{:016x}.json", id, fnv(s.as_bytes())));
    let _ = std::fs::write(&p, s);
    p
}

pub fn load_case<C: DeserializeOwned>(p: &Path) -> Result<C, String> {
    let s = std::fs::read_to_string(p).map_err(|e| format!("{}: {}", p.display(), e))?;
    let v: Value = serde_json::from_str(&s).map_err(|e| format!("{}: {}", p.display(), e))?;
    let c = if v.get("case").is_some() { v["case"].clone() } else { v };
    serde_json::from_value(c).map_err(|e| format!("{}: {}", p.display(), e))
}

fn trunc(s: &str, n: usize) -> String {
    if s.len() <= n {
        s.to_string()
    } else {
        let mut e = n;
        while !s.is_char_boundary(e) {
            e -= 1;
        }
        format!("{}…[{} bytes]", &s[..e], s.len())
    }
}

thread_local! {
    static INFLIGHT_SLOT: std::cell::Cell<usize> = std::cell::Cell::new(usize::MAX);
}
static INFLIGHT_NEXT: std::sync::atomic::AtomicUsize = std::sync::atomic::AtomicUsize::new(0);

fn exec_guarded<P: Property>(prop: &P, case: &P::Case, ctx: &Ctx) -> Outcome {
    if prop.inprocess() {
        let slot = INFLIGHT_SLOT.with(|s| {
            if s.get() == usize::MAX {
                s.set(INFLIGHT_NEXT.fetch_add(1, Ordering::SeqCst));
            }
            s.get()
        });
        let dir = crate::s4run::scratch_root();
        let _ = std::fs::create_dir_all(&dir);
        let body = json!({"property": prop.id(), "seed": ctx.seed, "sig": "harness-crash", "msg": "the harness process died while executing this case in-process", "case": case});
        let _ = std::fs::write(dir.join(format!("inflight-{}.json", slot)), serde_json::to_vec(&body).unwrap_or_default());
    }
    prop.exec(case, ctx)
}

/// Run a property; returns process exit code.
pub fn run<P: Property>(prop: &P, tier: Tier, seed: u64, replay: Option<PathBuf>) -> i32 {
    let t0 = Instant::now();
    let id = prop.id();
    let known = load_known();
    let stats = Mutex::new(Stats::default());
    let ctx = Ctx { tier, seed, verbose: replay.is_some() };

    // --- single replay mode
    if let Some(p) = replay {
        let case: P::Case = match load_case(&p) {
            Ok(c) => c,
            Err(e) => {
                eprintln!("vp: cannot load replay: {}", e);
                return 2;
            }
        };
        let o = exec_guarded(prop, &case, &ctx);
        match &o.verdict {
            Verdict::Fail { sig, msg } => {
                if let Some(k) = known_match(&known, id, sig) {
                    println!("KNOWN-FINDING: property={} {} [{}]", id, k.what, sig);
                    return 0;
                }
                println!("replay failed: sig={} {}", sig, trunc(msg, 4000));
                println!("VIOLATION property={} replay={}", id, p.display());
                return 1;
            }
            Verdict::Inconclusive(w) => {
                println!("replay inconclusive: {}", w);
                return 2;
            }
            Verdict::Discard(w) => {
                println!("replay: case discarded ({})", w);
                return 0;
            }
            Verdict::Pass => {
                println!("replay passed (nontrivial={}, classes={:?})", o.nontrivial, o.classes);
                return 0;
            }
        }
    }

    let handle = |o: &Outcome, case: &P::Case, origin: &str, st: &mut Stats| {
        st.absorb(o);
        if let Verdict::Fail { sig, msg } = &o.verdict {
            if let Some(k) = known_match(&known, id, sig) {
                let e = st.known_hits.entry(sig.clone()).or_insert((0, k.what.clone()));
                e.0 += 1;
            } else {
                let p = write_replay(id, seed, case, sig, msg);
                eprintln!("[{}] {} failure sig={} : {}", id, origin, sig, trunc(msg, 3000));
                st.violations.push((sig.clone(), msg.clone(), p));
            }
        }
    };

    // --- phase 1: saved corpus (regression inputs)
    let corpus_dir = verif_root().join("corpus").join(id);
    let mut corpus_n = 0;
    if let Ok(rd) = std::fs::read_dir(&corpus_dir) {
        let mut files: Vec<PathBuf> = rd.flatten().map(|e| e.path()).filter(|p| p.extension().map(|e| e == "json").unwrap_or(false)).collect();
        files.sort();
        for f in files {
            match load_case::<P::Case>(&f) {
                Ok(case) => {
                    corpus_n += 1;
                    let o = exec_guarded(prop, &case, &ctx);
                    let mut st = stats.lock().unwrap();
                    handle(&o, &case, &format!("corpus {}", f.display()), &mut st);
                }
                Err(e) => eprintln!("[{}] skipping corpus file: {}", id, e),
            }
        }
    }
    // --- phase 2: probes
    let probes = if std::env::var_os("VP_NO_PROBES").is_some() { vec![] } else { prop.probes(tier) };
    let probes_n = probes.len();
    {
        let jobs = jobs();
        let idx = std::sync::atomic::AtomicUsize::new(0);
        std::thread::scope(|s| {
            for _ in 0..jobs.min(probes.len().max(1)) {
                s.spawn(|| loop {
                    let i = idx.fetch_add(1, Ordering::SeqCst);
                    if i >= probes.len() {
                        break;
                    }
                    let (name, case) = &probes[i];
                    let o = exec_guarded(prop, case, &ctx);
                    let mut st = stats.lock().unwrap();
                    handle(&o, case, &format!("probe {}", name), &mut st);
                });
            }
        });
    }

    // --- phase 3: random search with proptest, one runner per thread
    let total_cases = std::env::var("VP_CASES").ok().and_then(|s| s.parse().ok()).unwrap_or_else(|| prop.cases(tier));
    let jobs = jobs();
    let stop = AtomicBool::new(false);
    let have_violation = stats.lock().unwrap().violations.len() > 0;
    if !have_violation && total_cases > 0 {
        std::thread::scope(|s| {
            for ti in 0..jobs {
                let stats = &stats;
                let stop = &stop;
                let known = &known;
                let ctx = &ctx;
                let per = total_cases / jobs as u32 + if (ti as u32) < total_cases % jobs as u32 { 1 } else { 0 };
                if per == 0 {
                    continue;
                }
                s.spawn(move || {
                    let mut seed_bytes = [0u8; 32];
                    seed_bytes[..8].copy_from_slice(&seed.to_le_bytes());
                    seed_bytes[8..16].copy_from_slice(&(ti as u64).to_le_bytes());
                    seed_bytes[16..24].copy_from_slice(&fnv(id.as_bytes()).to_le_bytes());
                    let cfg = Config {
                        cases: per,
                        failure_persistence: None,
                        max_shrink_iters: prop.shrink_iters(),
                        // a failure whose every re-execution runs into a watchdog must not shrink for hours
                        max_shrink_time: 90_000,
                        max_global_rejects: 100_000,
                        ..Config::default()
                    };
                    let rng = TestRng::from_seed(RngAlgorithm::ChaCha, &seed_bytes);
                    let mut runner = TestRunner::new_with_rng(cfg, rng);
                    let failed = std::cell::Cell::new(false);
                    let fail_info: std::cell::RefCell<Option<(String, String)>> = std::cell::RefCell::new(None);
                    let strat = prop.strategy(tier);
                    let res = runner.run(&strat, |case| {
                        if !failed.get() && stop.load(Ordering::Relaxed) {
                            return Ok(());
                        }
                        let o = exec_guarded(prop, &case, ctx);
                        if failed.get() {
                            // shrinking: only the verdict matters
                            return match &o.verdict {
                                Verdict::Fail { sig, msg } => {
                                    if known_match(known, id, sig).is_some() {
                                        Ok(())
                                    } else {
                                        *fail_info.borrow_mut() = Some((sig.clone(), msg.clone()));
                                        Err(TestCaseError::fail(sig.clone()))
                                    }
                                }
                                _ => Ok(()),
                            };
                        }
                        let mut st = stats.lock().unwrap();
                        st.absorb(&o);
                        if let Verdict::Inconclusive(w) = &o.verdict {
                            if st.inconclusive.len() <= 3 {
                                let p = write_replay(id, seed, &case, "inconclusive", w);
                                eprintln!("[{}] inconclusive case saved: {}", id, p.display());
                            }
                        }
                        if let Verdict::Fail { sig, msg } = &o.verdict {
                            if let Some(k) = known_match(known, id, sig) {
                                let e = st.known_hits.entry(sig.clone()).or_insert((0, k.what.clone()));
                                e.0 += 1;
                                return Ok(());
                            }
                            failed.set(true);
                            stop.store(true, Ordering::Relaxed);
                            *fail_info.borrow_mut() = Some((sig.clone(), msg.clone()));
                            return Err(TestCaseError::fail(sig.clone()));
                        }
                        Ok(())
                    });
                    match res {
                        Ok(()) => {}
                        Err(TestError::Fail(_, case)) => {
                            let (sig, msg) = fail_info.borrow().clone().unwrap_or_default();
                            let p = write_replay(id, seed, &case, &sig, &msg);
                            eprintln!("[{}] shrunk failure sig={} : {}", id, sig, trunc(&msg, 3000));
                            stats.lock().unwrap().violations.push((sig, msg, p));
                        }
                        Err(TestError::Abort(r)) => {
                            stats.lock().unwrap().inconclusive.push(format!("proptest abort: {}", r));
                        }
                    }
                });
            }
        });
    }

    let mut st = stats.into_inner().unwrap();
    // --- phase 4: extra
    if st.violations.is_empty() {
        prop.extra(&ctx, &mut st);
    }

    // --- evidence
    let wall = t0.elapsed().as_secs_f64();
    let mut coverage = serde_json::Map::new();
    coverage.insert("evaluations".into(), json!(st.evaluations));
    coverage.insert("cases".into(), json!(st.cases));
    coverage.insert("distinct_nontrivial".into(), json!(st.nontrivial_keys.len()));
    coverage.insert("rule".into(), json!(prop.rule()));
    coverage.insert("samples".into(), json!(st.samples));
    coverage.insert("classes".into(), json!(st.classes));
    coverage.insert("discarded_by_reason".into(), json!(st.discards));
    coverage.insert("corpus_cases".into(), json!(corpus_n));
    coverage.insert("probe_cases".into(), json!(probes_n));
    coverage.insert("s4_process_runs".into(), json!(crate::s4run::RUNS.load(Ordering::Relaxed)));
    coverage.insert(
        "known_findings_hit".into(),
        json!(st.known_hits.iter().map(|(k, v)| json!({"sig": k, "count": v.0, "what": v.1})).collect::<Vec<_>>()),
    );
    coverage.insert("inconclusive".into(), json!(st.inconclusive));
    for (k, v) in &st.extra {
        coverage.insert(k.clone(), v.clone());
    }
    let ev = json!({
        "property_id": id,
        "tier": tier.name(),
        "seed": seed,
        "level": "exploration",
        "coverage": Value::Object(coverage),
        "assumptions": prop.assumptions(),
        "wall_s": wall,
        "violations": st.violations.len(),
    });
    // VP_EVIDENCE_DIR: used when running against seeded changes so the committed evidence is not overwritten
    let evdir = std::env::var_os("VP_EVIDENCE_DIR").map(PathBuf::from).unwrap_or_else(|| verif_root().join("evidence"));
    let _ = std::fs::create_dir_all(&evdir);
    let _ = std::fs::write(evdir.join(format!("{}.json", id)), serde_json::to_string_pretty(&ev).unwrap());

    println!(
        "[{}] tier={} seed={} cases={} evaluations={} distinct_nontrivial={} discards={} s4_runs={} wall={:.1}s",
        id,
        tier.name(),
        seed,
        st.cases,
        st.evaluations,
        st.nontrivial_keys.len(),
        st.discards.values().sum::<u64>(),
        crate::s4run::RUNS.load(Ordering::Relaxed),
        wall
    );
    let cls: Vec<String> = st.classes.iter().map(|(k, v)| format!("{}={}", k, v)).collect();
    println!("[{}] classes: {}", id, cls.join(" "));
    for (sig, (n, what)) in &st.known_hits {
        println!("KNOWN-FINDING: property={} {} [sig={} hits={}]", id, what, sig, n);
    }
    crate::s4run::cleanup_scratch_root();
    if !st.violations.is_empty() {
        for (_sig, _msg, p) in &st.violations {
            println!("VIOLATION property={} replay={}", id, p.display());
        }
        return 1;
    }
    if !st.inconclusive.is_empty() {
        println!("[{}] INCONCLUSIVE: {}", id, trunc(&st.inconclusive.join(" | "), 2000));
        return 2;
    }
    0
}

pub fn jobs() -> usize {
    std::env::var("VP_JOBS").ok().and_then(|s| s.parse().ok()).unwrap_or(16)
}

/// helper: boxed strategy
pub fn bx<S: Strategy + 'static>(s: S) -> BoxedStrategy<S::Value> {
    s.boxed()
}
