//! G-text: model of a text log. The generator owns the true instant and the exact bytes of every message.

use crate::bytes::B;
use crate::dt::{self, civil, NS};
use proptest::prelude::*;
use serde::{Deserialize, Serialize};

/// A timestamp notation usable by the general (non-C04) checks.
pub struct Tmpl {
    pub name: &'static str,
    /// timestamp resolution in ns
    pub res: i64,
    /// notation carries its own zone (true) or is read in the `-t` zone (false)
    pub has_tz: bool,
    /// notation is always UTC (epoch, `Z`)
    pub utc_only: bool,
    pub render: fn(t_ns: i64, off: i32) -> String,
}

fn c(t: i64, off: i32) -> dt::Civil {
    civil(t as i128, off)
}

pub const TMPLS: &[Tmpl] = &[
    Tmpl {
        name: "iso8601-T-us-colon-offset",
        res: 1_000,
        has_tz: true,
        utc_only: false,
        render: |t, o| dt::strftime(&c(t, o), t as i128, "%Y-%m-%dT%H:%M:%S.%6f%:z"),
    },
    Tmpl {
        name: "iso-space-ms-offset",
        res: 1_000_000,
        has_tz: true,
        utc_only: false,
        render: |t, o| dt::strftime(&c(t, o), t as i128, "%Y-%m-%d %H:%M:%S.%3f %z"),
    },
    Tmpl {
        name: "bracket-us-colon-offset",
        res: 1_000,
        has_tz: true,
        utc_only: false,
        render: |t, o| dt::strftime(&c(t, o), t as i128, "[%Y-%m-%d %H:%M:%S.%6f %:z]"),
    },
    Tmpl { name: "epoch-us", res: 1_000, has_tz: true, utc_only: true, render: |t, _| dt::strftime(&c(t, 0), t as i128, "%s.%6f") },
    Tmpl {
        name: "iso-space-comma-ms-notz",
        res: 1_000_000,
        has_tz: false,
        utc_only: false,
        render: |t, o| dt::strftime(&c(t, o), t as i128, "%Y-%m-%d %H:%M:%S,%3f"),
    },
    Tmpl {
        name: "basic-T-us-offset",
        res: 1_000,
        has_tz: true,
        utc_only: false,
        render: |t, o| dt::strftime(&c(t, o), t as i128, "%Y%m%dT%H%M%S.%6f %z"),
    },
    Tmpl {
        name: "rfc2822",
        res: 1_000_000_000,
        has_tz: true,
        utc_only: false,
        render: |t, o| dt::strftime(&c(t, o), t as i128, "%a, %d %b %Y %H:%M:%S %z"),
    },
    Tmpl {
        name: "rfc5424-Z",
        res: 1_000,
        has_tz: true,
        utc_only: true,
        render: |t, _| dt::strftime(&c(t, 0), t as i128, "<14>1 %Y-%m-%dT%H:%M:%S.%6fZ"),
    },
    Tmpl {
        name: "year-mon-day-notz",
        res: 1_000_000_000,
        has_tz: false,
        utc_only: false,
        render: |t, o| dt::strftime(&c(t, o), t as i128, "%Y %b %e %H:%M:%S"),
    },
    Tmpl {
        name: "iso8601-T-ns-colon-offset",
        res: 1,
        has_tz: true,
        utc_only: false,
        render: |t, o| dt::strftime(&c(t, o), t as i128, "%Y-%m-%dT%H:%M:%S.%9f%:z"),
    },
];

#[derive(Clone, Debug, Serialize, Deserialize, PartialEq, Eq)]
pub struct TMsg {
    /// true instant, ns since the epoch (UTC)
    pub t: i64,
    /// head line after the timestamp (starts with " #")
    pub body: B,
    /// continuation lines (without the newline)
    pub cont: Vec<B>,
}

#[derive(Clone, Debug, Serialize, Deserialize, PartialEq, Eq)]
pub struct TextLog {
    pub tmpl: usize,
    /// UTC offset (s, east) the notation is written in; for zone-less notations this is also the `-t` value to use
    pub off: i32,
    /// lines before the first timestamped line
    pub header: Vec<B>,
    pub msgs: Vec<TMsg>,
    pub final_nl: bool,
}

#[derive(Clone, Debug)]
pub struct Rendered {
    pub bytes: Vec<u8>,
    /// [start, end) of each message in `bytes` (end includes the newline when present)
    pub spans: Vec<(usize, usize)>,
    /// end offset (exclusive, incl. newline) of each message's head line
    pub head_ends: Vec<usize>,
}

impl TextLog {
    pub fn tmpl(&self) -> &'static Tmpl {
        &TMPLS[self.tmpl % TMPLS.len()]
    }
    pub fn render(&self) -> Rendered {
        let tm = self.tmpl();
        let mut bytes = Vec::new();
        let mut spans = Vec::new();
        let mut head_ends = Vec::new();
        for h in &self.header {
            bytes.extend_from_slice(&h.0);
            bytes.push(b'\n');
        }
        for m in &self.msgs {
            let start = bytes.len();
            bytes.extend_from_slice((tm.render)(m.t, self.off).as_bytes());
            bytes.extend_from_slice(&m.body.0);
            bytes.push(b'\n');
            head_ends.push(bytes.len());
            for l in &m.cont {
                bytes.extend_from_slice(&l.0);
                bytes.push(b'\n');
            }
            spans.push((start, bytes.len()));
        }
        if !self.final_nl && !bytes.is_empty() {
            bytes.pop();
            if let Some(l) = spans.last_mut() {
                if l.1 > bytes.len() {
                    l.1 = bytes.len();
                }
            }
            if let Some(l) = head_ends.last_mut() {
                if *l > bytes.len() {
                    *l = bytes.len();
                }
            }
        }
        Rendered { bytes, spans, head_ends }
    }
    /// the `-t` argument that makes zone-less notations denote the generated instants
    pub fn tz_arg(&self) -> String {
        format!("-t={}", dt::off_colon(self.off))
    }
    /// message i as it must be printed (a final newline is supplied when missing)
    pub fn msg_bytes(r: &Rendered, i: usize) -> Vec<u8> {
        let (a, b) = r.spans[i];
        let mut v = r.bytes[a..b].to_vec();
        if v.last() != Some(&b'\n') {
            v.push(b'\n');
        }
        v
    }
}

/// Conservative model of the block-zero acceptance heuristic (DESIGN section 1, finding F6).
/// Returns true when the file is certainly accepted when read with block size `bs`.
pub fn accepted_at(r: &Rendered, header_lines: usize, bs: u64) -> bool {
    let filesz = r.bytes.len() as u64;
    if r.spans.is_empty() {
        return false;
    }
    let b0 = filesz.min(bs);
    if b0 < 6 {
        return false;
    }
    if r.bytes.iter().take(128).all(|&b| b == 0) {
        return false;
    }
    let (need_lines, need_msgs) = if b0 < 8096 { (1usize, 1usize) } else { (3, 2) };
    // the first timestamped head line must lie completely inside block zero
    if r.head_ends[0] as u64 > b0 {
        return false;
    }
    // header lines make the first "line" not a sysline; keep them inside block zero as well (guaranteed by the above)
    // complete lines inside block zero
    let nl = r.bytes[..b0 as usize].iter().filter(|&&b| b == b'\n').count() + if filesz <= b0 && r.bytes.last() != Some(&b'\n') { 1 } else { 0 };
    if nl < need_lines + header_lines {
        return false;
    }
    // messages whose end is determined inside block zero: the next head line is completely inside, or the file ends inside
    let mut done = 0usize;
    for i in 0..r.spans.len() {
        let determined = if i + 1 < r.spans.len() { r.head_ends[i + 1] as u64 <= b0 } else { filesz <= b0 };
        if determined {
            done += 1;
        } else {
            break;
        }
    }
    if need_msgs > 1 && done < need_msgs {
        return false;
    }
    true
}

// ----------------------------------------------------------------------------------------------
// strategies

/// bytes for one line: no `\n`, no two adjacent ASCII digits
pub fn fix_line(mut v: Vec<u8>) -> Vec<u8> {
    let mut prev_digit = false;
    for b in v.iter_mut() {
        if *b == b'\n' {
            *b = b' ';
        }
        let d = b.is_ascii_digit();
        if d && prev_digit {
            *b = b'x';
            prev_digit = false;
        } else {
            prev_digit = d;
        }
    }
    v
}

const ASCII_ALPHABET: &[u8] = b"abcdefghijklmnopqrstuvwxyz ABCDEFGHIJKLMNOPQRSTUVWXYZ.,;:-_=/()[]{}<>!?'\"#$%&*+|~^`@ 0123456789\t";
const UTF8_PIECES: &[&str] = &["é", "ß", "日本", "語", "😀", "ñ", "Ω", "→", "ı", "\u{200b}", "e\u{301}"];

#[derive(Clone, Copy, Debug, PartialEq, Eq)]
pub enum ByteClass {
    Ascii,
    Utf8,
    Binary,
}

pub fn line_content(max_len: usize) -> BoxedStrategy<Vec<u8>> {
    let ascii = prop::collection::vec(prop::sample::select(ASCII_ALPHABET.to_vec()), 0..=max_len.max(1)).boxed();
    let utf8 = prop::collection::vec(
        prop_oneof![
            3 => prop::sample::select(ASCII_ALPHABET.to_vec()).prop_map(|b| vec![b]),
            1 => prop::sample::select(UTF8_PIECES.to_vec()).prop_map(|s| s.as_bytes().to_vec()),
        ],
        0..=(max_len / 2).max(1),
    )
    .prop_map(|vv| vv.concat())
    .boxed();
    let binary = prop::collection::vec(
        prop_oneof![
            4 => prop::sample::select(ASCII_ALPHABET.to_vec()),
            1 => Just(0u8),
            1 => Just(b'\r'),
            2 => 0x80u8..=0xff,
            1 => 1u8..0x20,
        ],
        0..=max_len.max(1),
    )
    .boxed();
    prop_oneof![5 => ascii, 2 => utf8, 3 => binary].prop_map(fix_line).boxed()
}

/// A line whose length is steered: small, medium, or around multiples of `bs`.
pub fn steered_line(bs: usize, max_mult: usize) -> BoxedStrategy<Vec<u8>> {
    let small = line_content(30);
    let medium = line_content(300);
    let around = (line_content(40), 1usize..=max_mult.max(1), -48i64..=8).prop_map(move |(seed, k, d)| {
        let target = ((k * bs) as i64 + d).max(0) as usize;
        stretch(&seed, target)
    });
    prop_oneof![6 => small, 2 => medium, 2 => around].boxed()
}

/// repeat `seed` (or 'a') up to exactly `len` bytes, keeping the no-adjacent-digits rule
pub fn stretch(seed: &[u8], len: usize) -> Vec<u8> {
    let mut v = Vec::with_capacity(len);
    let seed: &[u8] = if seed.is_empty() { b"a" } else { seed };
    while v.len() < len {
        let n = (len - v.len()).min(seed.len());
        v.extend_from_slice(&seed[..n]);
    }
    fix_line(v)
}

/// lowercase-letter id (no digits) for message `i` of source `s`
pub fn letters(mut n: usize) -> String {
    let mut s = String::new();
    loop {
        s.push((b'a' + (n % 26) as u8) as char);
        n /= 26;
        if n == 0 {
            break;
        }
    }
    s
}

#[derive(Clone, Debug)]
pub struct TextParams {
    pub min_msgs: usize,
    pub max_msgs: usize,
    /// block size used for steering line lengths
    pub steer_bs: usize,
    pub max_mult: usize,
    /// allow header lines / missing final newline
    pub allow_header: bool,
    /// templates to draw from (indices into TMPLS)
    pub tmpls: Vec<usize>,
    pub max_cont: usize,
    /// all block sizes the file must be accepted at (the first head line is kept shorter than the smallest)
    pub accept_bs: Vec<u64>,
    /// ordered instants (non-decreasing)
    pub ordered: bool,
    /// base instant range (seconds since epoch)
    pub base_lo: i64,
    pub base_hi: i64,
}

impl Default for TextParams {
    fn default() -> Self {
        TextParams {
            min_msgs: 0,
            max_msgs: 30,
            steer_bs: 64,
            max_mult: 4,
            allow_header: true,
            tmpls: (0..TMPLS.len()).collect(),
            max_cont: 3,
            accept_bs: vec![64],
            ordered: true,
            base_lo: 86_400 * 366,       // 1971
            base_hi: 4_070_000_000,      // ~2098
        }
    }
}

/// time step in units of the template resolution
fn step_units() -> BoxedStrategy<i64> {
    prop_oneof![
        3 => Just(0i64),
        2 => Just(1i64),
        2 => 1i64..1000,
        2 => 1000i64..100_000,
        1 => 100_000i64..100_000_000,
    ]
    .boxed()
}

pub const OFFSETS: &[i32] = &[0, 3600, -3600, 19800, -34200, 50400, -43200, 20700, 7200, -18000];

pub fn text_log(p: TextParams) -> BoxedStrategy<TextLog> {
    let bs = p.steer_bs;
    let msg = (step_units(), steered_line(bs, p.max_mult), prop::collection::vec(steered_line(bs, p.max_mult), 0..=p.max_cont), any::<bool>());
    let p2 = p.clone();
    (
        prop::sample::select(p.tmpls.clone()),
        prop::sample::select(OFFSETS.to_vec()),
        p.base_lo..p.base_hi,
        prop::collection::vec(msg, p.min_msgs..=p.max_msgs),
        if p.allow_header { prop::collection::vec(line_content(40), 0..=2).boxed() } else { Just(vec![]).boxed() },
        prop::bool::weighted(0.7),
        0usize..1000,
    )
        .prop_map(move |(tmpl, off, base, specs, header, final_nl, idbase)| {
            let tm = &TMPLS[tmpl];
            // the project's epoch notation covers 9\d{8}|[12]\d{9} seconds only
            let base = if tm.name.starts_with("epoch") { 900_000_000 + base % 1_900_000_000 } else { base };
            let mut t = base * NS as i64;
            t -= t % tm.res;
            let mut msgs = Vec::new();
            for (i, (step, body, cont, neg)) in specs.into_iter().enumerate() {
                let stepns = step.saturating_mul(tm.res);
                if p2.ordered || !neg {
                    t = t.saturating_add(stepns);
                } else {
                    t = (t - stepns).max(86_400 * NS as i64);
                }
                // stay inside the supported range (years ..2099; epoch notation ..2065)
                let max_t: i64 = if tm.name.starts_with("epoch") { 2_990_000_000 } else { 4_102_000_000 } * NS as i64;
                if t > max_t {
                    t = max_t - max_t % tm.res;
                }
                let mut b = format!(" #{} ", letters(idbase + i)).into_bytes();
                b.extend_from_slice(&body);
                msgs.push(TMsg { t, body: B(fix_line(b)), cont: cont.into_iter().map(B).collect() });
            }
            let mut log = TextLog { tmpl, off: if tm.utc_only { 0 } else { off }, header: header.into_iter().map(B).collect(), msgs, final_nl };
            constrain_for_acceptance(&mut log, &p2.accept_bs);
            log
        })
        .boxed()
}

/// Make the file certainly acceptable at every block size in `bss` (finding F6 excluded by construction):
/// header lines dropped when they would not fit, first head line shortened below the smallest block,
/// and, when block zero can reach 8096 bytes, the first messages shortened so that three lines / two complete
/// messages lie inside the first 8096 bytes.
pub fn constrain_for_acceptance(log: &mut TextLog, bss: &[u64]) {
    if log.msgs.is_empty() || bss.is_empty() {
        return;
    }
    let min_bs = *bss.iter().min().unwrap() as usize;
    let max_bs = *bss.iter().max().unwrap() as usize;
    let tslen = (log.tmpl().render)(log.msgs[0].t, log.off).len();
    // header + first head line must fit into the smallest block
    let mut hdr_len: usize = log.header.iter().map(|h| h.len() + 1).sum();
    if hdr_len + tslen + 8 > min_bs {
        log.header.clear();
        hdr_len = 0;
    }
    let room = min_bs.saturating_sub(hdr_len + tslen + 1);
    if log.msgs[0].body.len() > room {
        let mut b = log.msgs[0].body.0.clone();
        b.truncate(room);
        log.msgs[0].body = B(b);
    }
    if max_bs >= 8096 {
        // keep the first three messages small so that 2 complete messages + third head line lie within 8096 bytes
        for m in log.msgs.iter_mut().take(3) {
            if m.body.len() > 600 {
                let mut b = m.body.0.clone();
                b.truncate(600);
                m.body = B(b);
            }
            for l in m.cont.iter_mut() {
                if l.len() > 500 {
                    let mut b = l.0.clone();
                    b.truncate(500);
                    *l = B(b);
                }
            }
        }
    }
}


/// Known finding F22 (streamed .gz/.bz2/.lz4 text): when a line ends exactly on the last byte of a block and the
/// next line is at least one block long, the messages before it can be
/// lost at that block size. Cases with this alignment are excluded by construction for those containers.
pub fn streamed_alignment_hazard(bytes: &[u8], bs: u64) -> bool {
    let mut prev_nl: Option<u64> = None;
    for (i, &b) in bytes.iter().enumerate() {
        if b == b'\n' {
            let i = i as u64;
            if let Some(p) = prev_nl {
                // observed with the next newline exactly on a block start and, with header lines before the
                // first message, with any next line of a block or more; excluded conservatively
                if p % bs == bs - 1 && i - p >= bs {
                    return true;
                }
            }
            prev_nl = Some(i);
        }
    }
    false
}
