//! Log sources of every kind for multi-source checks, and the reference merge (O-merge).

use crate::containers::*;
use crate::fixedgen::*;
use crate::s4run::*;
use crate::textgen::*;
use proptest::prelude::*;
use serde::{Deserialize, Serialize};
use std::path::{Path, PathBuf};

pub const SENTINEL: &str = "\u{1}<~SEP~>\u{2}";

/// shipped journal / evtx files (relative to /repo/logs); journals that are stored gz-compressed are decompressed at run time
pub const SHIPPED: &[(&str, &str)] = &[
    ("evtx", "programs/evtx/Microsoft-Windows-Kernel-PnP%4Configuration.evtx"),
    ("journal", "programs/journal/RHE_91_system.journal.gz"),
    ("journal", "programs/journal/Ubuntu22-user-1000x3.journal.gz"),
];

pub fn repo_logs() -> PathBuf {
    PathBuf::from(std::env::var("VP_REPO").unwrap_or_else(|_| "/repo".into())).join("logs")
}

/// bytes of a shipped file (gunzipped when stored as .gz)
pub fn shipped_bytes(which: usize) -> Result<(String, Vec<u8>), String> {
    let (kind, rel) = SHIPPED[which % SHIPPED.len()];
    let p = repo_logs().join(rel);
    let raw = std::fs::read(&p).map_err(|e| format!("{}: {}", p.display(), e))?;
    let data = if rel.ends_with(".gz") {
        use std::io::Read;
        let mut d = flate2::read::GzDecoder::new(&raw[..]);
        let mut v = Vec::new();
        d.read_to_end(&mut v).map_err(|e| format!("gunzip {}: {}", p.display(), e))?;
        v
    } else {
        raw
    };
    Ok((kind.to_string(), data))
}

#[derive(Clone, Debug, Serialize, Deserialize, PartialEq, Eq)]
pub enum Source {
    Text { log: TextLog, codec: Codec },
    Fixed { file: FixedFile, codec: Codec },
    Shipped { which: usize, codec: Codec },
}

impl Source {
    pub fn kind(&self) -> String {
        match self {
            Source::Text { codec, .. } => format!("text/{}", codec.kind()),
            Source::Fixed { codec, .. } => format!("fixedstruct/{}", codec.kind()),
            Source::Shipped { which, codec } => format!("{}/{}", SHIPPED[*which % SHIPPED.len()].0, codec.kind()),
        }
    }
    pub fn is_text(&self) -> bool {
        matches!(self, Source::Text { .. })
    }
}

/// one printed message of a source: instant (ns) and the undecorated bytes exactly as s4 prints them
#[derive(Clone, Debug)]
pub struct Msg {
    pub t: i64,
    pub bytes: Vec<u8>,
    /// text-log message (a missing final newline is supplied when printed)
    pub text: bool,
}

pub struct Materialized {
    pub path: PathBuf,
    pub msgs: Vec<Msg>,
}

/// file name for source `i` of the given kind inside `dir` (names sort in index order)
pub fn source_name(i: usize, s: &Source) -> (String, String) {
    let stem = format!("s{}", (b'a' + (i as u8 % 26)) as char);
    match s {
        Source::Text { .. } => (format!("{}.log", stem), "a.log".into()),
        Source::Fixed { file, .. } => {
            let fname = file.lay().fname;
            (format!("{}.{}", stem, fname), fname.to_string())
        }
        Source::Shipped { which, .. } => {
            let k = SHIPPED[*which % SHIPPED.len()].0;
            (format!("{}.{}", stem, k), format!("x.{}", k))
        }
    }
}

/// split output produced with `--separator SENTINEL` into messages (the sentinel is removed; a newline supplied
/// after the sentinel for a message lacking one is attached to that message)
pub fn split_sentinel(out: &[u8]) -> Vec<Vec<u8>> {
    let sep = SENTINEL.as_bytes();
    let mut v = vec![];
    let mut i = 0;
    let mut cur = Vec::new();
    while i < out.len() {
        if out[i..].starts_with(sep) {
            i += sep.len();
            // supplied newline directly after the separator belongs to this message when it lacks one
            if cur.last() != Some(&b'\n') && out.get(i) == Some(&b'\n') {
                cur.push(b'\n');
                i += 1;
            }
            v.push(std::mem::take(&mut cur));
        } else {
            cur.push(out[i]);
            i += 1;
        }
    }
    if !cur.is_empty() {
        v.push(cur);
    }
    v
}

/// Write the source into `dir` and obtain its message sequence. Text: generator-known truth.
/// Fixedstruct / shipped journal / evtx: a single-source run of s4 (metamorphic reference).
pub fn materialize(i: usize, s: &Source, dir: &Path, tmp: &Path, tz: &str) -> Result<Materialized, String> {
    materialize_named(i, s, dir, tmp, tz, None)
}

/// like `materialize` with a caller-chosen file stem (the type suffix is kept)
pub fn materialize_named(i: usize, s: &Source, dir: &Path, tmp: &Path, tz: &str, stem: Option<&str>) -> Result<Materialized, String> {
    let (mut name, member) = source_name(i, s);
    if let Some(st) = stem {
        let suffix = name.splitn(2, '.').nth(1).unwrap_or("log").to_string();
        name = format!("{}.{}", st, suffix);
    }
    match s {
        Source::Text { log, codec } => {
            let r = log.render();
            let path = wrap(codec, &r.bytes, dir, &name, &member)?;
            let msgs = log.msgs.iter().enumerate().map(|(k, m)| Msg { t: m.t, bytes: r.bytes[r.spans[k].0..r.spans[k].1].to_vec(), text: true }).collect();
            Ok(Materialized { path, msgs })
        }
        Source::Fixed { file, codec } => {
            let path = wrap(codec, &file.render(), dir, &name, &member)?;
            let msgs = single_run_msgs(&path, tmp, tz)?;
            Ok(Materialized { path, msgs })
        }
        Source::Shipped { which, codec } => {
            let (_k, data) = shipped_bytes(*which)?;
            let path = wrap(codec, &data, dir, &name, &member)?;
            let msgs = single_run_msgs(&path, tmp, tz)?;
            Ok(Materialized { path, msgs })
        }
    }
}

/// per-message (instant, bytes) of one file as printed by s4 on its own
pub fn single_run_msgs(path: &Path, tmp: &Path, tz: &str) -> Result<Vec<Msg>, String> {
    let mut a1 = osargs(["--color", "never", tz, "--separator", SENTINEL]);
    a1.push(path.into());
    let o1 = run_s4(RunSpec { args: a1, tmpdir: Some(tmp), ..Default::default() });
    let mut a2 = osargs(["--color", "never", tz, "--separator", SENTINEL, "-u", "-d", "%s.%9f|", "--prepend-separator", ""]);
    a2.push(path.into());
    let o2 = run_s4(RunSpec { args: a2, tmpdir: Some(tmp), ..Default::default() });
    if !o1.ok01() || !o2.ok01() {
        return Err(format!("single-source run failed for {}: {:?} {:?} {}", path.display(), o1.status, o1.signal, o1.stderr_str()));
    }
    let m1 = split_sentinel(&o1.stdout);
    let m2 = split_sentinel(&o2.stdout);
    if m1.len() != m2.len() {
        return Err(format!("single-source runs disagree on message count: {} vs {} for {}", m1.len(), m2.len(), path.display()));
    }
    let mut v = vec![];
    for (b, d) in m1.into_iter().zip(m2.into_iter()) {
        // skip leading NUL / newline bytes that belong to the previous record's terminator
        let ds = String::from_utf8_lossy(&d);
        let ds = ds.trim_start_matches(|c| c == '\0' || c == '\n');
        let bar = ds.find('|').ok_or_else(|| format!("no datetime prefix in {:?}", &ds[..ds.len().min(60)]))?;
        let (secs, nanos) = ds[..bar].split_once('.').ok_or("bad datetime prefix")?;
        let secs = secs.parse::<i64>().map_err(|e| format!("{} in {:?}", e, &ds[..bar]))?;
        if !(0..4_102_444_800).contains(&secs) {
            // every generated and shipped record lies in 1970..2100; another value means the layout heuristic read the
            // file as a different layout (by design a scoring heuristic, counted as a discard like in C08)
            return Err(format!("discard: record time {} outside 1970..2100 (another layout detected) for {}", secs, path.display()));
        }
        let t = secs * 1_000_000_000 + nanos.parse::<i64>().map_err(|e| e.to_string())?;
        v.push(Msg { t, bytes: b, text: false });
    }
    Ok(v)
}

/// O-merge: stable k-way merge choosing at each step the minimum head by (instant, source index)
pub fn o_merge(srcs: &[&[Msg]]) -> Vec<(usize, usize)> {
    let mut pos = vec![0usize; srcs.len()];
    let mut out = vec![];
    loop {
        let mut best: Option<(i64, usize)> = None;
        for (si, s) in srcs.iter().enumerate() {
            if pos[si] < s.len() {
                let t = s[pos[si]].t;
                if best.map(|(bt, _)| t < bt).unwrap_or(true) {
                    best = Some((t, si));
                }
            }
        }
        match best {
            Some((_, si)) => {
                out.push((si, pos[si]));
                pos[si] += 1;
            }
            None => break,
        }
    }
    out
}

/// expected stdout of a merged run with `--separator SENTINEL` (or without)
pub fn expected_merged(srcs: &[&[Msg]], with_sep: bool) -> Vec<u8> {
    let mut out = Vec::new();
    for (si, mi) in o_merge(srcs) {
        let m = &srcs[si][mi];
        let b = &m.bytes;
        if with_sep {
            // the sentinel precedes a supplied newline
            if b.last() == Some(&b'\n') || !m.text {
                out.extend_from_slice(b);
                out.extend_from_slice(SENTINEL.as_bytes());
            } else {
                out.extend_from_slice(b);
                out.extend_from_slice(SENTINEL.as_bytes());
                out.push(b'\n');
            }
        } else {
            out.extend_from_slice(b);
            if m.text && b.last() != Some(&b'\n') {
                out.push(b'\n');
            }
        }
    }
    out
}

// ------------------------------------------------------------------------------------------
// strategies

/// a set of sources whose instants collide often: all text logs share a coarse time base
pub fn source_set(max_sources: usize, max_msgs: usize, allow_shipped: bool, tz_off: i32) -> BoxedStrategy<Vec<Source>> {
    let base = 1_500_000_000i64;
    let text = (0usize..TMPLS.len(), any_codec_or_plain(), prop::bool::weighted(0.8), prop::bool::weighted(0.3)).prop_flat_map(move |(tmpl, codec, ordered, big)| {
        let p = TextParams {
            min_msgs: 0,
            max_msgs,
            // 30% of the text sources carry lines and messages of several KiB (print-buffer sized and larger)
            steer_bs: if big { 1400 } else { 64 },
            max_mult: if big { 3 } else { 2 },
            allow_header: true,
            tmpls: vec![tmpl],
            max_cont: 2,
            accept_bs: vec![65536],
            ordered,
            base_lo: base,
            base_hi: base + 3,
        };
        (text_log(p), Just(codec), Just(ordered))
    });
    let text = text.prop_map(move |(mut log, codec, ordered)| {
        // zone-less notations are read in the run's -t zone
        if !log.tmpl().has_tz {
            log.off = tz_off;
        }
        // make cross-source ties frequent: quantise most instants to a coarse grid
        let res = log.tmpl().res.max(1_000_000);
        for (k, m) in log.msgs.iter_mut().enumerate() {
            if k % 3 != 2 {
                m.t -= m.t % res.max(500_000_000);
            }
        }
        if ordered {
            // quantisation must not disorder a chronological source
            let mut prev = i64::MIN;
            for m in log.msgs.iter_mut() {
                if m.t < prev {
                    m.t = prev;
                }
                prev = m.t;
            }
        }
        Source::Text { log, codec }
    });
    let nl = layouts().len();
    let fixed = (fixed_file(12, (0..nl).collect()), any_codec_or_plain()).prop_map(move |(mut file, codec)| {
        for r in file.recs.iter_mut() {
            r.sec = base + (r.sec % 4);
            if r.usec % 2 == 0 {
                r.usec = 0;
            }
        }
        Source::Fixed { file, codec }
    });
    let shipped = (0usize..SHIPPED.len(), prop_oneof![3 => Just(Codec::Plain), 1 => any_codec()]).prop_map(|(which, codec)| Source::Shipped { which, codec });
    let one = if allow_shipped { prop_oneof![12 => text, 3 => fixed, 1 => shipped].boxed() } else { prop_oneof![12 => text, 3 => fixed].boxed() };
    prop::collection::vec(one, 1..=max_sources)
        .prop_map(|mut v| {
            // at most one shipped journal/evtx per set (they are large)
            let mut seen = false;
            v.retain(|s| {
                if matches!(s, Source::Shipped { .. }) {
                    if seen {
                        return false;
                    }
                    seen = true;
                }
                true
            });
            v
        })
        .boxed()
}

/// outcome for a failed `materialize`: `discard:` errors are generator exclusions, everything else is infrastructure
pub fn materialize_failed(e: String) -> crate::engine::Outcome {
    if e.starts_with("discard: ") {
        crate::engine::Outcome::discard("record source read as another layout (a record time outside 1970..2100)")
    } else {
        crate::engine::Outcome::inconclusive(e)
    }
}
