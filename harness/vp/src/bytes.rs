//! Byte strings with a readable, loss-free JSON form (`\xNN` escapes).

use serde::{Deserialize, Deserializer, Serialize, Serializer};
use std::fmt;

#[derive(Clone, PartialEq, Eq, Hash, Default, PartialOrd, Ord)]
pub struct B(pub Vec<u8>);

pub fn esc(b: &[u8]) -> String {
    let mut s = String::with_capacity(b.len() + 8);
    for &c in b {
        match c {
            b'\\' => s.push_str("\\\\"),
            b'\n' => s.push_str("\\n"),
            b'\r' => s.push_str("\\r"),
            b'\t' => s.push_str("\\t"),
            0x20..=0x7e => s.push(c as char),
            _ => s.push_str(&format!("\\x{:02x}", c)),
        }
    }
    s
}

/// escaped form, truncated for messages
pub fn esc_trunc(b: &[u8], n: usize) -> String {
    if b.len() <= n {
        esc(b)
    } else {
        format!("{}…(+{} bytes)", esc(&b[..n]), b.len() - n)
    }
}

pub fn unesc(s: &str) -> Result<Vec<u8>, String> {
    let b = s.as_bytes();
    let mut out = Vec::with_capacity(b.len());
    let mut i = 0;
    while i < b.len() {
        if b[i] == b'\\' {
            i += 1;
            if i >= b.len() {
                return Err("dangling backslash".into());
            }
            match b[i] {
                b'\\' => out.push(b'\\'),
                b'n' => out.push(b'\n'),
                b'r' => out.push(b'\r'),
                b't' => out.push(b'\t'),
                b'x' => {
                    if i + 3 > b.len() {
                        return Err("short \\x".into());
                    }
                    let h = std::str::from_utf8(&b[i + 1..i + 3]).map_err(|e| e.to_string())?;
                    out.push(u8::from_str_radix(h, 16).map_err(|e| e.to_string())?);
                    i += 2;
                }
                c => return Err(format!("bad escape \\{}", c as char)),
            }
            i += 1;
        } else {
            out.push(b[i]);
            i += 1;
        }
    }
    Ok(out)
}

impl fmt::Debug for B {
    fn fmt(&self, f: &mut fmt::Formatter<'_>) -> fmt::Result {
        write!(f, "b\"{}\"", esc_trunc(&self.0, 200))
    }
}

impl Serialize for B {
    fn serialize<S: Serializer>(&self, s: S) -> Result<S::Ok, S::Error> {
        s.serialize_str(&esc(&self.0))
    }
}

impl<'de> Deserialize<'de> for B {
    fn deserialize<D: Deserializer<'de>>(d: D) -> Result<B, D::Error> {
        let s = String::deserialize(d)?;
        unesc(&s).map(B).map_err(serde::de::Error::custom)
    }
}

impl From<Vec<u8>> for B {
    fn from(v: Vec<u8>) -> B {
        B(v)
    }
}
impl From<&[u8]> for B {
    fn from(v: &[u8]) -> B {
        B(v.to_vec())
    }
}
impl From<&str> for B {
    fn from(v: &str) -> B {
        B(v.as_bytes().to_vec())
    }
}
impl std::ops::Deref for B {
    type Target = Vec<u8>;
    fn deref(&self) -> &Vec<u8> {
        &self.0
    }
}

/// first differing offset and context, for messages
pub fn diff_msg(got: &[u8], want: &[u8]) -> String {
    let n = got.len().min(want.len());
    let mut i = 0;
    while i < n && got[i] == want[i] {
        i += 1;
    }
    let lo = i.saturating_sub(60);
    format!(
        "len got={} want={} first_diff_at={} got[..]=\"{}\" want[..]=\"{}\"",
        got.len(),
        want.len(),
        i,
        esc_trunc(&got[lo..got.len().min(i + 100)], 200),
        esc_trunc(&want[lo..want.len().min(i + 100)], 200)
    )
}
