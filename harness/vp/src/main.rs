use std::path::PathBuf;
use vplib::engine::{run, Tier};
use vplib::props;

fn usage() -> ! {
    eprintln!("usage: vp <Cxx> [--tier quick|thorough] [--seed N] [--replay FILE]");
    std::process::exit(2)
}

fn main() {
    let args: Vec<String> = std::env::args().collect();
    if args.len() < 2 {
        usage();
    }
    let id = args[1].clone();
    if id == "tool" {
        std::process::exit(vplib::tools::main(&args[2..]));
    }
    let mut tier = match std::env::var("VERIF_TIER").as_deref() {
        Ok("thorough") => Tier::Thorough,
        _ => Tier::Quick,
    };
    let mut seed: u64 = std::env::var("VERIF_SEED").ok().and_then(|s| s.trim().parse::<i128>().ok()).map(|v| v as u64).unwrap_or(20261004);
    let mut replay: Option<PathBuf> = None;
    let mut i = 2;
    while i < args.len() {
        match args[i].as_str() {
            "--tier" => {
                i += 1;
                tier = match args.get(i).map(|s| s.as_str()) {
                    Some("quick") => Tier::Quick,
                    Some("thorough") => Tier::Thorough,
                    _ => usage(),
                };
            }
            "quick" => tier = Tier::Quick,
            "thorough" => tier = Tier::Thorough,
            "--seed" => {
                i += 1;
                seed = args.get(i).and_then(|s| s.parse::<i128>().ok()).map(|v| v as u64).unwrap_or_else(|| usage());
            }
            "--replay" => {
                i += 1;
                replay = Some(PathBuf::from(args.get(i).unwrap_or_else(|| usage())));
            }
            _ => usage(),
        }
        i += 1;
    }
    let code = props::dispatch(&id, tier, seed, replay);
    std::process::exit(code);
}
