pub mod bytes;
pub mod dt;
pub mod engine;
pub mod s4run;
pub mod textgen;
pub mod containers;
pub mod window;
pub mod props;
