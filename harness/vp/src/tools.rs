//! small developer tools: `vp tool <name> ...`
use crate::fixedgen::*;

pub fn main(args: &[String]) -> i32 {
    match args.get(0).map(|s| s.as_str()) {
        Some("fixed-samples") => {
            let dir = std::path::PathBuf::from(&args[1]);
            for (i, l) in layouts().iter().enumerate() {
                let ff = FixedFile {
                    layout: i,
                    recs: (0..4).map(|k| FRec { sec: 1_600_000_000 + (k as i64 % 3), usec: 5 + k as i64, null: 0, pid: 100 + k, typ: 6, serial: k as u32, full: 0, stale: 0, addr: [0; 4] }).collect(),
                };
                let d = dir.join(l.id);
                std::fs::create_dir_all(&d).unwrap();
                std::fs::write(d.join(l.fname), ff.render()).unwrap();
                println!("{} size={} -> {}", l.id, l.size, d.join(l.fname).display());
            }
            0
        }
        Some("classify") => {
            for a in &args[1..] {
                let b = crate::bytes::unesc(a).unwrap();
                use std::os::unix::ffi::OsStringExt;
                let name = std::ffi::OsString::from_vec(b);
                println!("{:?} true  -> {:?}", a, crate::props::c16::observed(&name, true));
                println!("{:?} false -> {:?}", a, crate::props::c16::observed(&name, false));
            }
            0
        }
        _ => {
            eprintln!("unknown tool");
            2
        }
    }
}
