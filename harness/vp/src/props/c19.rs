//! C19 — the summary agrees with what was printed.

use crate::bytes::diff_msg;
use crate::containers::Codec;
use crate::dt;
use crate::engine::*;
use crate::props::c01::tz_arg;
use crate::props::c13::*;
use crate::s4run::*;
use crate::sources::*;
use crate::textgen::OFFSETS;
use crate::window::*;
use proptest::prelude::*;
use serde::{Deserialize, Serialize};
use serde_json::json;

pub struct C19;

#[derive(Clone, Debug, Serialize, Deserialize)]
pub struct Case {
    pub srcs: Vec<Source>,
    pub opts: Opts,
    pub tz_off: i32,
    pub win: Option<WinSpec>,
}

fn field<'a>(text: &'a str, label: &str) -> Option<&'a str> {
    for l in text.lines() {
        if let Some(rest) = l.strip_prefix(label) {
            let rest = rest.trim_start();
            if let Some(v) = rest.strip_prefix(':') {
                return Some(v.trim());
            }
        }
    }
    None
}

fn num(text: &str, label: &str) -> Option<u64> {
    field(text, label).and_then(|v| v.split_whitespace().next()).and_then(|v| v.parse().ok())
}

/// the UTC copy in parentheses "(YYYY-MM-DD HH:MM:SS +00:00)" -> seconds since epoch
fn paren_utc(v: &str) -> Option<i64> {
    let a = v.find('(')?;
    let b = v.find(')')?;
    let s = &v[a + 1..b];
    // YYYY-MM-DD HH:MM:SS +00:00
    let y: i64 = s.get(0..4)?.parse().ok()?;
    let mo: u32 = s.get(5..7)?.parse().ok()?;
    let d: u32 = s.get(8..10)?.parse().ok()?;
    let h: u32 = s.get(11..13)?.parse().ok()?;
    let mi: u32 = s.get(14..16)?.parse().ok()?;
    let se: u32 = s.get(17..19)?.parse().ok()?;
    if !s.ends_with("+00:00") {
        return None;
    }
    Some((dt::instant(y, mo, d, h, mi, se, 0, 0) / 1_000_000_000) as i64)
}

impl Property for C19 {
    type Case = Case;
    fn id(&self) -> &'static str {
        "C19"
    }
    fn rule(&self) -> String {
        "case = 1..4 sources of all kinds (generated text, synthesised accounting records, shipped journal/evtx) x decoration tuple of C13 (-n/-p/-w, -u/-l/-z, -d, separators, colour) x optional window. oracle: (1) stdout with --summary == stdout without, stdout contains no summary text; (2) `Printed bytes` == len(stdout) (SGR sequences removed for --color always), `Printed syslines+evtx+fixedstruct+journal` == number of messages of the reference merge, `Printed lines` == lines of text messages; (3) per-file `Printed: bytes` sum == total - separators x messages - supplied final newlines, and for every text source its `Printed: syslines / lines / datetime first / datetime last` == count, lines and min/max instant of that file's printed messages (nothing when none was printed); (4) `Datetime printed first/last` == min/max instant of the printed messages (second resolution) and `Datetime filter -a/-b` == the window bounds. non-trivial = >=2 sources printing and >=1 decoration and (a separator or a supplied final newline); distinct = hash(case).".into()
    }
    fn assumptions(&self) -> Vec<String> {
        vec!["colour escape sequences are not counted in `Printed bytes` (weaker reading on purpose)".into()]
    }
    fn cases(&self, tier: Tier) -> u32 {
        tier.pick(400, 8000)
    }
    fn strategy(&self, tier: Tier) -> BoxedStrategy<Case> {
        let maxm = tier.pick(12, 40);
        (prop::sample::select(OFFSETS.to_vec()), 1usize..=4)
            .prop_flat_map(move |(tz_off, n)| (source_set(n, maxm, true, tz_off), Just(tz_off), opts_strategy(), win_spec_or_none()))
            .prop_map(|(srcs, tz_off, opts, win)| {
                let srcs: Vec<Source> = srcs
                    .into_iter()
                    .map(|s| match s {
                        Source::Text { log, .. } => Source::Text { log, codec: Codec::Plain },
                        Source::Fixed { file, .. } => Source::Fixed { file, codec: Codec::Plain },
                        Source::Shipped { which, .. } => Source::Shipped { which, codec: Codec::Plain },
                    })
                    .collect();
                Case { srcs, opts, tz_off, win }
            })
            .boxed()
    }
    fn exec(&self, case: &Case, _ctx: &Ctx) -> Outcome {
        let sc = Scratch::new();
        let dir = sc.subdir("in");
        let tmp = sc.subdir("tmp");
        let tz = tz_arg(case.tz_off);
        let mut mats = vec![];
        let mut disordered = false;
        for (i, s) in case.srcs.iter().enumerate() {
            if let Source::Text { log, .. } = s {
                let r = log.render();
                if !log.msgs.is_empty() && !crate::textgen::accepted_at(&r, log.header.len(), 65536) {
                    return Outcome::discard("outside block-zero acceptance (F6)");
                }
                if r.bytes.windows(2).any(|w| w == [0x1b, b'[']) {
                    return Outcome::discard("content contains ESC[");
                }
                if log.msgs.windows(2).any(|w| w[0].t > w[1].t) {
                    disordered = true;
                }
            }
            match materialize(i, s, &dir, &tmp, &tz) {
                Ok(m) => mats.push(m),
                Err(e) => return crate::sources::materialize_failed(e),
            }
        }
        let all_instants: Vec<i64> = {
            let mut v: Vec<i64> = mats.iter().flat_map(|m| m.msgs.iter().map(|x| x.t)).collect();
            v.sort();
            v
        };
        let w = if disordered { Window::none() } else { case.win.as_ref().map(|w| w.resolve(&all_instants)).unwrap_or(Window::none()) };
        // apply the window to the per-source sequences
        for m in mats.iter_mut() {
            m.msgs.retain(|x| w.contains(x.t));
        }
        let kinds: Vec<bool> = case.srcs.iter().map(|s| matches!(s, Source::Fixed { .. })).collect();
        let shown: Vec<String> = mats
            .iter()
            .map(|m| match case.opts.file {
                2 => m.path.to_string_lossy().to_string(),
                _ => m.path.file_name().unwrap().to_string_lossy().to_string(),
            })
            .collect();
        let want = expected_decorated(&mats, &kinds, &shown, &case.opts);
        let mut args = build_args(&case.opts, &tz);
        for a in w.args() {
            args.push(a.into());
        }
        let mut args_s = args.clone();
        args_s.push("--summary".into());
        for m in &mats {
            args.push(m.path.clone().into());
            args_s.push(m.path.clone().into());
        }
        let plain = run_s4(RunSpec { args: args.clone(), tmpdir: Some(&tmp), ..Default::default() });
        let summ = run_s4(RunSpec { args: args_s.clone(), tmpdir: Some(&tmp), ..Default::default() });
        for o in [&plain, &summ] {
            if o.timed_out {
                return Outcome::inconclusive("timeout".into());
            }
            if !o.ok01() || o.panicked() {
                return Outcome::fail("crash", format!("args={:?} status={:?} signal={:?} stderr={}", args, o.status, o.signal, o.stderr_str()));
            }
        }
        let ctx = || format!("args={:?}", args_s.iter().map(|a| a.to_string_lossy().to_string()).collect::<Vec<_>>());
        if plain.stdout != summ.stdout {
            return Outcome::fail("stdout-changed", format!("{} {}", ctx(), diff_msg(&summ.stdout, &plain.stdout)));
        }
        let visible = if case.opts.color { strip_sgr(&summ.stdout) } else { summ.stdout.clone() };
        if visible != want {
            // decoration itself is C13's subject; report it under its own signature
            return Outcome::fail("decoration", format!("{} {}", ctx(), diff_msg(&visible, &want)));
        }
        if crate::props::c02::contains(&summ.stdout, b"Program Summary") || !plain.stderr.is_empty() && crate::props::c02::contains(&plain.stderr, b"Program Summary") {
            return Outcome::fail("summary-on-stdout", ctx());
        }
        let err = summ.stderr_str();
        let prog = match err.find("Program Summary:") {
            Some(i) => &err[i..],
            None => return Outcome::fail("no-summary", format!("{} stderr={}", ctx(), crate::bytes::esc_trunc(&summ.stderr, 400))),
        };
        // expected counts from the reference merge
        let msgs: Vec<&[Msg]> = mats.iter().map(|m| &m.msgs[..]).collect();
        let order = o_merge(&msgs);
        let nmsg = order.len() as u64;
        let text_lines: u64 = order.iter().filter(|(si, _)| case.srcs[*si].is_text()).map(|(si, mi)| msgs[*si][*mi].bytes.split_inclusive(|&b| b == b'\n').count() as u64).sum();
        let supplied_nl: u64 = order.iter().filter(|(si, mi)| msgs[*si][*mi].text && msgs[*si][*mi].bytes.last() != Some(&b'\n')).count() as u64;
        let sep_len = case.opts.sep.as_ref().map(|s| unescape_sep(s).len()).unwrap_or(0) as u64;

        let pb = num(prog, "Printed bytes");
        if pb != Some(visible.len() as u64) {
            return Outcome::fail("printed-bytes", format!("{} summary says {:?}, stdout has {} bytes ({} after removing colour sequences)", ctx(), pb, summ.stdout.len(), visible.len()));
        }
        let counted = num(prog, "Printed syslines").unwrap_or(0) + num(prog, "Printed evtx events").unwrap_or(0) + num(prog, "Printed fixedstruct").unwrap_or(0) + num(prog, "Printed journal events").unwrap_or(0);
        if counted != nmsg {
            return Outcome::fail("printed-messages", format!("{} summary counts {} messages, printed {}", ctx(), counted, nmsg));
        }
        let pl = num(prog, "Printed lines").unwrap_or(0);
        if pl != text_lines {
            return Outcome::fail("printed-lines", format!("{} summary says {} lines, text messages have {}", ctx(), pl, text_lines));
        }
        // per-file sections
        let files_part = &err[..err.find("Program Summary:").unwrap()];
        let mut per_file_sum = 0u64;
        for sec in files_part.split("\nFile: ").skip(1) {
            if let Some(pi) = sec.find("  Printed:") {
                let p = &sec[pi..];
                let end = p.find("  Processed:").unwrap_or(p.len());
                per_file_sum += num(&p[..end], "      bytes").unwrap_or(0);
            }
        }
        // per-file `Printed:` figures of text sources: message and line counts, first and last printed datetime
        for (si, m) in mats.iter().enumerate() {
            if !case.srcs[si].is_text() {
                continue;
            }
            let pname = m.path.to_string_lossy().to_string();
            let sec = match files_part.split("\nFile: ").skip(1).find(|sec| sec.lines().next().map(|l| l.trim_end() == pname).unwrap_or(false)) {
                Some(s) => s,
                None => continue,
            };
            let p = match sec.find("  Printed:") {
                Some(pi) => {
                    let p = &sec[pi..];
                    &p[..p.find("  Processed:").unwrap_or(p.len())]
                }
                None => continue,
            };
            let mine: Vec<&Msg> = order.iter().filter(|(s2, _)| *s2 == si).map(|(s2, mi)| &msgs[*s2][*mi]).collect();
            let want_lines: u64 = mine.iter().map(|x| x.bytes.split_inclusive(|&b| b == b'\n').count() as u64).sum();
            let got_sys = num(p, "      syslines").unwrap_or(0);
            let got_lines = num(p, "      lines").unwrap_or(0);
            if got_sys != mine.len() as u64 || got_lines != want_lines {
                return Outcome::fail("per-file-counts", format!("{} file {}: summary says {} syslines / {} lines printed, stdout has {} / {}", ctx(), pname, got_sys, got_lines, mine.len(), want_lines));
            }
            let f = field(p, "      datetime first").and_then(paren_utc);
            let l = field(p, "      datetime last").and_then(paren_utc);
            let wf = mine.iter().map(|x| x.t).min().map(|t| t.div_euclid(1_000_000_000));
            let wl = mine.iter().map(|x| x.t).max().map(|t| t.div_euclid(1_000_000_000));
            if f != wf || l != wl {
                return Outcome::fail("per-file-first-last", format!("{} file {}: summary `Printed: datetime first/last` {:?}/{:?}, its printed messages span {:?}..{:?}", ctx(), pname, f, l, wf, wl));
            }
        }
        let want_sum = visible.len() as u64 - sep_len * nmsg - supplied_nl;
        if nmsg > 0 && per_file_sum != want_sum {
            return Outcome::fail("per-file-sum", format!("{} per-file printed bytes sum {}, expected total {} - {} x {} separators - {} supplied newlines = {}", ctx(), per_file_sum, visible.len(), sep_len, nmsg, supplied_nl, want_sum));
        }
        // first / last printed datetime
        if nmsg > 0 {
            let tmin = order.iter().map(|(si, mi)| msgs[*si][*mi].t).min().unwrap().div_euclid(1_000_000_000);
            let tmax = order.iter().map(|(si, mi)| msgs[*si][*mi].t).max().unwrap().div_euclid(1_000_000_000);
            let f = field(prog, "Datetime printed first").and_then(paren_utc);
            let l = field(prog, "Datetime printed last").and_then(paren_utc);
            if f != Some(tmin) || l != Some(tmax) {
                return Outcome::fail("first-last", format!("{} summary first/last {:?}/{:?}, printed messages span {}..{}", ctx(), f, l, tmin, tmax));
            }
        }
        for (lab, b) in [("Datetime filter -a", w.a), ("Datetime filter -b", w.b)] {
            let got = field(prog, lab).and_then(paren_utc);
            let wantb = b.map(|x| x.div_euclid(1_000_000_000));
            if got != wantb {
                return Outcome::fail("filter-bounds", format!("{} {} shows {:?}, resolved bound {:?}", ctx(), lab, got, wantb));
            }
        }
        let printing = msgs.iter().filter(|m| !m.is_empty()).count();
        let o = &case.opts;
        let ndeco = (o.file != 0) as u8 + (o.dt != 0) as u8 + o.color as u8;
        let mut oc = Outcome::pass(printing >= 2 && ndeco >= 1 && (sep_len > 0 || supplied_nl > 0), hash_debug(case));
        oc.evals = 2;
        if sep_len > 0 {
            oc = oc.class("separator");
        }
        if supplied_nl > 0 {
            oc = oc.class("supplied-final-newline");
        }
        if o.color {
            oc = oc.class("color:always");
        }
        if w.a.is_some() || w.b.is_some() {
            oc = oc.class("with-window");
        }
        if nmsg == 0 {
            oc = oc.class("nothing-printed");
        }
        for s in &case.srcs {
            oc = oc.class(&format!("kind:{}", s.kind().split('/').next().unwrap()));
        }
        oc.with_sample(json!({"args": args_s.iter().map(|a| a.to_string_lossy().to_string()).collect::<Vec<_>>(), "messages": nmsg, "printed_bytes": visible.len(), "text_lines": text_lines, "per_file_sum": per_file_sum}))
    }
}
