//! C10 — event-log files: every record once, ordered by creation time.

use crate::containers::*;
use crate::engine::*;
use crate::s4run::*;
use crate::sources::{repo_logs, split_sentinel, SENTINEL};
use crate::window::*;
use proptest::prelude::*;
use serde::{Deserialize, Serialize};
use serde_json::json;

pub struct C10;

pub const EVTX_FILES: &[&str] = &["programs/evtx/Microsoft-Windows-Kernel-PnP%4Configuration.evtx", "programs/evtx/NoEvents.evtx"];

#[derive(Clone, Debug, Serialize, Deserialize)]
pub struct Case {
    pub which: u8,
    pub codec: Codec,
    pub win: Option<WinSpec>,
    pub bs: u64,
    /// (src, dst) record indices (monotone maps of u16 onto the record list): record dst is given the creation time
    /// of record src (record header FILETIME and its copy in the record's binary XML), so that equal creation times
    /// occur next to each other, across chunk boundaries and far apart
    #[serde(default)]
    pub retime: Vec<(u16, u16)>,
}

/// (file offset, size, creation FILETIME) of every record, in file order
pub fn evtx_records(buf: &[u8]) -> Vec<(usize, usize, u64)> {
    let rd32 = |o: usize| u32::from_le_bytes(buf[o..o + 4].try_into().unwrap()) as usize;
    let rd64 = |o: usize| u64::from_le_bytes(buf[o..o + 8].try_into().unwrap());
    let mut v = vec![];
    let mut off = 4096;
    while off + 65536 <= buf.len() {
        if &buf[off..off + 8] == b"ElfChnk\0" {
            let free = rd32(off + 48);
            let mut p = 512;
            while p + 24 <= free.min(65536) {
                if rd32(off + p) != 0x0000_2a2a {
                    break;
                }
                let sz = rd32(off + p + 4);
                if sz < 24 || p + sz > 65536 {
                    break;
                }
                v.push((off + p, sz, rd64(off + p + 16)));
                p += sz;
            }
        }
        off += 65536;
    }
    v
}

/// apply the `retime` list; pairs whose target does not hold its FILETIME exactly twice are skipped
pub fn evtx_retime(data: &mut Vec<u8>, retime: &[(u16, u16)]) -> usize {
    let mut applied = 0;
    for (a, b) in retime {
        let recs = evtx_records(data);
        if recs.len() < 2 {
            return applied;
        }
        let ia = (*a as usize * recs.len()) >> 16;
        let ib = (*b as usize * recs.len()) >> 16;
        if ia == ib {
            continue;
        }
        let (o, sz, ft_old) = recs[ib];
        let ft_new = recs[ia].2;
        let old = ft_old.to_le_bytes();
        let body = &data[o..o + sz];
        let pos: Vec<usize> = (0..sz - 7).filter(|&i| body[i..i + 8] == old).collect();
        if pos.len() != 2 || ft_new == ft_old {
            continue;
        }
        for i in pos {
            data[o + i..o + i + 8].copy_from_slice(&ft_new.to_le_bytes());
        }
        applied += 1;
    }
    applied
}

/// independent listing with the evtx crate, single threaded: (EventRecordID, timestamp ns) in file order
pub fn dump(path: &std::path::Path) -> Result<Vec<(u64, i64)>, String> {
    let settings = evtx::ParserSettings::new().num_threads(1);
    let mut parser = evtx::EvtxParser::from_path(path).map_err(|e| e.to_string())?.with_configuration(settings);
    let mut v = vec![];
    for r in parser.records() {
        let r = r.map_err(|e| e.to_string())?;
        v.push((r.event_record_id, r.timestamp.timestamp_nanos_opt().unwrap_or(0)));
    }
    Ok(v)
}

fn between<'a>(s: &'a str, a: &str, b: &str) -> Option<&'a str> {
    let i = s.find(a)? + a.len();
    let j = s[i..].find(b)? + i;
    Some(&s[i..j])
}

impl Property for C10 {
    type Case = Case;
    fn id(&self) -> &'static str {
        "C10"
    }
    fn rule(&self) -> String {
        "input space = the 2 shipped .evtx files (one stores its records out of time order, one has no events), two thirds of the cases with 1..7 records given the creation time of another record (neighbour, across a chunk boundary, or far away; header FILETIME and its copy in the binary XML) so that equal creation times occur x container (plain and generated gz/bz2/xz/lz4/tar) x windows placed relative to the actual record times (on a record time, +-1us, between, before, after, A=B) x block size. oracle: an independent single-threaded listing with the evtx crate gives (EventRecordID, creation time) in file order; expected print order = that list stable-sorted by creation time and filtered A<=t<=B; from s4's stdout (sentinel separator) the EventRecordID and TimeCreated of every printed record are extracted and compared as a sequence. non-trivial = the file stores >=1 inversion and (window cuts or container != plain or a bound on a record time); distinct = hash(case).".into()
    }
    fn assumptions(&self) -> Vec<String> {
        vec!["only the shipped .evtx files are available (no evtx writer installed)".into(), "the evtx crate (single-threaded) is the independent reader".into()]
    }
    fn cases(&self, tier: Tier) -> u32 {
        tier.pick(1500, 20000)
    }
    fn strategy(&self, _tier: Tier) -> BoxedStrategy<Case> {
        // neighbours (dst = src + a step of one record or so), chunk-boundary neighbours and far pairs arise from the same map
        let pair = prop_oneof![
            3 => (any::<u16>(), 1u16..600).prop_map(|(a, d)| (a, a.saturating_add(d))),
            2 => (any::<u16>(), any::<u16>()),
        ];
        let retime = prop_oneof![1 => Just(vec![]), 2 => prop::collection::vec(pair, 1..8)];
        (prop_oneof![8 => Just(0u8), 1 => Just(1u8)], any_codec_or_plain(), win_spec_or_none(), prop_oneof![1 => 64u64..5000, 2 => Just(65536u64)], retime)
            .prop_map(|(which, codec, win, bs, retime)| Case { which, codec, win, bs, retime })
            .boxed()
    }
    fn exec(&self, case: &Case, _ctx: &Ctx) -> Outcome {
        let rel = EVTX_FILES[case.which as usize % EVTX_FILES.len()];
        let src = repo_logs().join(rel);
        let mut data = match std::fs::read(&src) {
            Ok(d) => d,
            Err(e) => return Outcome::inconclusive(e.to_string()),
        };
        let sc = Scratch::new();
        let retimed = evtx_retime(&mut data, &case.retime);
        let listed = sc.write("listed.evtx", &data);
        let listing = match dump(&listed) {
            Ok(l) => l,
            Err(e) => return Outcome::inconclusive(format!("evtx crate cannot list {}: {}", rel, e)),
        };
        let f = match wrap(&case.codec, &data, &sc.dir, "a.evtx", "a.evtx") {
            Ok(f) => f,
            Err(e) => return Outcome::inconclusive(e),
        };
        let mut order: Vec<usize> = (0..listing.len()).collect();
        order.sort_by_key(|&i| listing[i].1); // stable
        let instants: Vec<i64> = order.iter().map(|&i| listing[i].1).collect();
        let w = case.win.as_ref().map(|w| w.resolve(&instants)).unwrap_or(Window::none());
        let expected: Vec<(u64, i64)> = order.iter().map(|&i| listing[i]).filter(|(_, t)| w.contains(*t)).collect();
        let mut args = osargs(["--color", "never", "-t=+00:00", "--blocksz"]);
        args.push(case.bs.to_string().into());
        args.push(format!("--separator={}", SENTINEL).into());
        for a in w.args() {
            args.push(a.into());
        }
        args.push(f.into());
        let out = run_s4(RunSpec { args, tmpdir: Some(&sc.dir), ..Default::default() });
        if out.timed_out {
            return Outcome::inconclusive("timeout".into());
        }
        if !out.ok01() || out.panicked() {
            return Outcome::fail("crash", format!("status={:?} signal={:?} stderr={}", out.status, out.signal, out.stderr_str()));
        }
        let mut got: Vec<(u64, i64)> = vec![];
        for m in split_sentinel(&out.stdout) {
            let s = String::from_utf8_lossy(&m);
            let id = between(&s, "<EventRecordID>", "</EventRecordID>").and_then(|x| x.trim().parse::<u64>().ok());
            let ts = between(&s, "SystemTime=\"", "\"").map(|x| x.to_string());
            match (id, ts) {
                (Some(id), Some(ts)) => {
                    // 2023-03-10T03:49:43.558721Z
                    let y: i64 = ts[0..4].parse().unwrap_or(0);
                    let mo: u32 = ts[5..7].parse().unwrap_or(1);
                    let d: u32 = ts[8..10].parse().unwrap_or(1);
                    let h: u32 = ts[11..13].parse().unwrap_or(0);
                    let mi: u32 = ts[14..16].parse().unwrap_or(0);
                    let se: u32 = ts[17..19].parse().unwrap_or(0);
                    let frac = ts[19..].trim_start_matches('.').trim_end_matches('Z');
                    let mut ns = 0u32;
                    if !frac.is_empty() {
                        let padded = format!("{:0<9}", frac);
                        ns = padded[..9].parse().unwrap_or(0);
                    }
                    got.push((id, crate::dt::instant(y, mo, d, h, mi, se, ns, 0) as i64));
                }
                _ => return Outcome::fail("format", format!("printed message without EventRecordID/TimeCreated: {:?}", crate::bytes::esc_trunc(&m, 200))),
            }
        }
        // the XML shows microseconds; compare ids exactly and times to the microsecond
        let norm = |v: &[(u64, i64)]| v.iter().map(|(i, t)| (*i, t / 1000)).collect::<Vec<_>>();
        if norm(&got) != norm(&expected) {
            let mut gs: Vec<u64> = got.iter().map(|x| x.0).collect();
            let mut es: Vec<u64> = expected.iter().map(|x| x.0).collect();
            let same_set = {
                gs.sort();
                es.sort();
                gs == es
            };
            let sig = if same_set { "order" } else { "selection" };
            return Outcome::fail(
                sig,
                format!("file={} codec={} bs={} window={:?}: printed {} records {:?}..., expected {} {:?}...", rel, case.codec.kind(), case.bs, w.args(), got.len(), &got[..got.len().min(6)], expected.len(), &expected[..expected.len().min(6)]),
            );
        }
        let inversions = listing.windows(2).filter(|w| w[0].1 > w[1].1).count();
        let cuts = !expected.is_empty() && expected.len() < listing.len();
        let on = w.on_instant(&instants);
        let nontrivial = inversions >= 1 && (cuts || on || !matches!(case.codec, Codec::Plain));
        let mut o = Outcome::pass(nontrivial, hash_debug(case));
        o = o.class(&format!("codec:{}", case.codec.kind())).class(&format!("file:{}", rel.rsplit('/').next().unwrap()));
        if cuts {
            o = o.class("window-cuts");
        }
        if on {
            o = o.class("bound-on-record-time");
        }
        if inversions > 0 {
            o = o.class("file-stores-inversions");
        }
        let ties = {
            let mut t = instants.clone();
            t.sort();
            t.windows(2).any(|w| w[0] == w[1])
        };
        if ties {
            o = o.class("equal-times-present");
        }
        if retimed > 0 {
            o = o.class("records-retimed");
        }
        o.with_sample(json!({"file": rel, "records": listing.len(), "inversions_in_file": inversions, "codec": case.codec.kind(), "window": w.args(), "printed": got.len()}))
    }
}
