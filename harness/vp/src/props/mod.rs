use crate::engine::{run, Tier};
use std::path::PathBuf;

pub mod c02;

pub fn dispatch(id: &str, tier: Tier, seed: u64, replay: Option<PathBuf>) -> i32 {
    match id {
        "C02" => run(&c02::C02, tier, seed, replay),
        _ => {
            eprintln!("vp: unknown property {}", id);
            2
        }
    }
}
