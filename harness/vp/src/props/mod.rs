use crate::engine::{run, Tier};
use std::path::PathBuf;

pub mod c01;
pub mod c02;
pub mod c03;
pub mod c04;
pub mod c05;
pub mod c06;
pub mod c07;
pub mod c08;
pub mod c09;
pub mod c10;
pub mod c11;
pub mod c12;
pub mod c13;
pub mod c14;
pub mod c15;
pub mod c16;
pub mod c17;
pub mod c18;
pub mod c19;

pub fn dispatch(id: &str, tier: Tier, seed: u64, replay: Option<PathBuf>) -> i32 {
    match id {
        "C01" => run(&c01::C01, tier, seed, replay),
        "C02" => run(&c02::C02, tier, seed, replay),
        "C03" => run(&c03::C03, tier, seed, replay),
        "C04" => run(&c04::C04, tier, seed, replay),
        "C05" => run(&c05::C05, tier, seed, replay),
        "C06" => run(&c06::C06, tier, seed, replay),
        "C07" => run(&c07::C07, tier, seed, replay),
        "C08" => run(&c08::C08, tier, seed, replay),
        "C09" => run(&c09::C09, tier, seed, replay),
        "C10" => run(&c10::C10, tier, seed, replay),
        "C11" => run(&c11::C11, tier, seed, replay),
        "C12" => run(&c12::C12, tier, seed, replay),
        "C13" => run(&c13::C13, tier, seed, replay),
        "C14" => run(&c14::C14, tier, seed, replay),
        "C15" => run(&c15::C15, tier, seed, replay),
        "C16" => run(&c16::C16, tier, seed, replay),
        "C17" => run(&c17::C17, tier, seed, replay),
        "C18" => run(&c18::C18, tier, seed, replay),
        "C19" => run(&c19::C19, tier, seed, replay),
        _ => {
            eprintln!("vp: unknown property {}", id);
            2
        }
    }
}
