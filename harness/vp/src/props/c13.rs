//! C13 — prepended fields, separators and colour are pure decoration.

use crate::bytes::diff_msg;
use crate::containers::Codec;
use crate::dt;
use crate::engine::*;
use crate::props::c01::tz_arg;
use crate::s4run::*;
use crate::sources::*;
use crate::textgen::OFFSETS;
use proptest::prelude::*;
use serde::{Deserialize, Serialize};
use serde_json::json;
use unicode_width::UnicodeWidthStr;

pub struct C13;

#[derive(Clone, Debug, Serialize, Deserialize, PartialEq, Eq)]
pub struct Opts {
    /// 0 none, 1 -n, 2 -p
    pub file: u8,
    pub align: bool,
    /// 0 none, 1 -u, 2 -l, 3 -z
    pub dt: u8,
    /// -z offset in units of 15 minutes
    pub z15: i8,
    pub fmt: Option<String>,
    pub psep: Option<String>,
    /// --separator argument (with backslash escapes)
    pub sep: Option<String>,
    pub color: bool,
}

#[derive(Clone, Debug, Serialize, Deserialize)]
pub struct Case {
    pub srcs: Vec<Source>,
    pub stems: Vec<String>,
    pub opts: Opts,
    pub tz_off: i32,
}

pub const DEFAULT_FMT: &str = "%Y%m%dT%H%M%S%.3f%z";

/// the bytes a --separator argument denotes (documented escapes)
pub fn unescape_sep(s: &str) -> Vec<u8> {
    let b = s.as_bytes();
    let mut out = vec![];
    let mut i = 0;
    while i < b.len() {
        if b[i] == b'\\' && i + 1 < b.len() {
            let c = match b[i + 1] {
                b'0' => Some(0u8),
                b'a' => Some(7),
                b'b' => Some(8),
                b'e' => Some(0x1b),
                b'f' => Some(0x0c),
                b'n' => Some(b'\n'),
                b'r' => Some(b'\r'),
                b'\\' => Some(b'\\'),
                b't' => Some(b'\t'),
                b'v' => Some(0x0b),
                _ => None,
            };
            if let Some(c) = c {
                out.push(c);
                i += 2;
                continue;
            }
        }
        out.push(b[i]);
        i += 1;
    }
    out
}

/// remove SGR colour sequences ESC [ digits;... m
pub fn strip_sgr(b: &[u8]) -> Vec<u8> {
    let mut out = Vec::with_capacity(b.len());
    let mut i = 0;
    while i < b.len() {
        if b[i] == 0x1b && b.get(i + 1) == Some(&b'[') {
            let mut j = i + 2;
            while j < b.len() && (b[j].is_ascii_digit() || b[j] == b';') {
                j += 1;
            }
            if j < b.len() && b[j] == b'm' {
                i = j + 1;
                continue;
            }
        }
        out.push(b[i]);
        i += 1;
    }
    out
}

const FMT_ITEMS: &[&str] = &["%Y", "%m", "%d", "%H", "%M", "%S", "%y", "%j", "%b", "%B", "%a", "%A", "%e", "%s", "%3f", "%6f", "%9f", "%.3f", "%.6f", "%.9f", "%f", "%z", "%:z", "%%", "%T", "%F", "-", ":", "/", "T", " ", "_", ".", ",", "=", "[", "]", "#", "@", "dt"];

pub fn opts_strategy() -> BoxedStrategy<Opts> {
    let fmt = prop::option::weighted(0.6, prop::collection::vec(prop::sample::select(FMT_ITEMS.to_vec()), 1..8).prop_map(|v| v.concat()));
    let psep = prop::option::weighted(0.5, prop::collection::vec(prop::sample::select(vec![":", "|", ";", ",", " ", "\t", "→", "é", "=>"]), 1..=3).prop_map(|v| v.concat()));
    let sep = prop::option::weighted(0.5, prop::collection::vec(prop::sample::select(vec!["\\0", "\\a", "\\b", "\\e", "\\f", "\\n", "\\r", "\\\\", "\\t", "\\v", "-", "=", "<", ">", "SEP", " ", "é"]), 1..=4).prop_map(|v| v.concat()));
    (0u8..3, any::<bool>(), 0u8..4, -48i8..=56, fmt, psep, sep, any::<bool>())
        .prop_map(|(file, align, dt, z15, fmt, psep, sep, color)| Opts { file, align: align && file != 0, dt, z15, fmt: if dt == 0 { None } else { fmt }, psep, sep, color })
        .boxed()
}

pub fn stems_strategy(n: usize) -> BoxedStrategy<Vec<String>> {
    let ascii = "[a-z]{1,12}".prop_map(|s| s).boxed();
    let narrow = prop::collection::vec(prop::sample::select(vec!["é", "ß", "ñ", "a", "b", "Ω", "x"]), 1..8).prop_map(|v| v.concat()).boxed();
    let wide = prop::collection::vec(prop::sample::select(vec!["日", "本", "語", "a", "한", "b"]), 1..6).prop_map(|v| v.concat()).boxed();
    prop::collection::vec(prop_oneof![6 => ascii, 3 => narrow, 1 => wide], n..=n)
        .prop_map(|v| v.into_iter().enumerate().map(|(i, s)| format!("{}{}", (b'a' + i as u8) as char, s)).collect())
        .boxed()
}

pub fn build_args(o: &Opts, tz: &str) -> Vec<std::ffi::OsString> {
    let mut a = osargs(["--color", if o.color { "always" } else { "never" }]);
    a.push(tz.into());
    match o.file {
        1 => a.push("-n".into()),
        2 => a.push("-p".into()),
        _ => {}
    }
    if o.align {
        a.push("-w".into());
    }
    match o.dt {
        1 => a.push("-u".into()),
        2 => a.push("-l".into()),
        3 => a.push(format!("-z={}", dt::off_colon(o.z15 as i32 * 900)).into()),
        _ => {}
    }
    if let Some(f) = &o.fmt {
        a.push(format!("--prepend-dt-format={}", f).into());
    }
    if let Some(p) = &o.psep {
        a.push(format!("--prepend-separator={}", p).into());
    }
    if let Some(s) = &o.sep {
        a.push(format!("--separator={}", s).into());
    }
    a
}

/// constructive expected output (without colour)
pub fn expected_decorated(mats: &[Materialized], kinds: &[bool], paths_shown: &[String], o: &Opts) -> Vec<u8> {
    let msgs: Vec<&[Msg]> = mats.iter().map(|m| &m.msgs[..]).collect();
    let psep = o.psep.clone().unwrap_or_else(|| ":".to_string());
    let sep = o.sep.as_ref().map(|s| unescape_sep(s)).unwrap_or_default();
    // widest printed name, in display columns
    let width = (0..mats.len()).filter(|&i| !mats[i].msgs.is_empty()).map(|i| UnicodeWidthStr::width(paths_shown[i].as_str())).max().unwrap_or(0);
    let zone_off = match o.dt {
        3 => o.z15 as i32 * 900,
        _ => 0,
    };
    let fmt = o.fmt.clone().unwrap_or_else(|| DEFAULT_FMT.to_string());
    let mut out = vec![];
    for (si, mi) in o_merge(&msgs) {
        let m = &msgs[si][mi];
        let mut prefix: Vec<u8> = vec![];
        if o.file != 0 {
            let name = &paths_shown[si];
            prefix.extend_from_slice(name.as_bytes());
            if o.align {
                for _ in UnicodeWidthStr::width(name.as_str())..width {
                    prefix.push(b' ');
                }
            }
            prefix.extend_from_slice(psep.as_bytes());
        }
        if o.dt != 0 {
            let c = dt::civil(m.t as i128, zone_off);
            prefix.extend_from_slice(dt::strftime(&c, m.t as i128, &fmt).as_bytes());
            prefix.extend_from_slice(psep.as_bytes());
        }
        if kinds[si] {
            // accounting record: one line, then the record terminator
            out.extend_from_slice(&prefix);
            out.extend_from_slice(&m.bytes);
        } else {
            for piece in m.bytes.split_inclusive(|&b| b == b'\n') {
                out.extend_from_slice(&prefix);
                out.extend_from_slice(piece);
            }
        }
        out.extend_from_slice(&sep);
        if m.text && m.bytes.last() != Some(&b'\n') {
            out.push(b'\n');
        }
    }
    out
}

impl Property for C13 {
    type Case = Case;
    fn id(&self) -> &'static str {
        "C13"
    }
    fn rule(&self) -> String {
        "case = 1..3 sources (generated text logs with multi-line messages, synthesised accounting-record files, shipped journal/evtx) under generated file names (ASCII of differing lengths, non-ASCII width-1, a class with wide CJK characters) x option tuple: none|-n|-p, -w, none|-u|-l|-z TZ (15-minute steps incl. negative and half-hour), -d FORMAT from a grammar of strftime items and literals, --prepend-separator of 1-3 characters incl. multibyte, --separator built from every documented escape, --color always|never. oracle: constructive expected output built from the undecorated per-source messages merged by O-merge: for every line file_field+dt_field+line with file padded (display columns) to the widest printed name, dt = harness strftime of the message instant in the requested zone, the separator after each message; with --color always the output minus SGR sequences must equal the same expectation. non-trivial = >=2 decorations active and (>=2 source kinds or a multi-line message); distinct = hash(case).".into()
    }
    fn assumptions(&self) -> Vec<String> {
        vec![
            "instants of accounting/journal/evtx messages come from a single-source `-u -d %s.%9f` run".into(),
            "generated content never contains ESC [ ... m sequences (a --separator may contain a bare ESC)".into(),
            "TZ=UTC in the environment, so -l means +00:00".into(),
        ]
    }
    fn cases(&self, tier: Tier) -> u32 {
        tier.pick(500, 10000)
    }
    fn probes(&self, _tier: Tier) -> Vec<(String, Case)> {
        use crate::fixedgen::*;
        let ff = FixedFile { layout: 0, recs: (0..3).map(|k| FRec { sec: 1_600_000_000 + k, usec: 5, null: 0, pid: 100 + k as i32, typ: 6, serial: k as u32, full: 0, stale: 0, addr: [0; 4] }).collect() };
        let base = Opts { file: 1, align: false, dt: 1, z15: 0, fmt: None, psep: None, sep: None, color: false };
        vec![
            ("fixedstruct-n-u-nocolor".into(), Case { srcs: vec![Source::Fixed { file: ff.clone(), codec: Codec::Plain }], stems: vec!["aw".into()], opts: base.clone(), tz_off: 0 }),
            ("fixedstruct-n-u-color".into(), Case { srcs: vec![Source::Fixed { file: ff.clone(), codec: Codec::Plain }], stems: vec!["aw".into()], opts: Opts { color: true, ..base.clone() }, tz_off: 0 }),
            (
                "wide-name-align".into(),
                Case { srcs: vec![Source::Fixed { file: ff.clone(), codec: Codec::Plain }, Source::Fixed { file: ff.clone(), codec: Codec::Plain }], stems: vec!["a日本語".into(), "bxyzxyzxyz".into()], opts: Opts { file: 1, align: true, dt: 0, ..base.clone() }, tz_off: 0 },
            ),
        ]
    }
    fn strategy(&self, tier: Tier) -> BoxedStrategy<Case> {
        let maxm = tier.pick(10, 30);
        (prop::sample::select(OFFSETS.to_vec()), 1usize..=3)
            .prop_flat_map(move |(tz_off, n)| (source_set(n, maxm, true, tz_off), Just(tz_off), opts_strategy()))
            .prop_flat_map(|(srcs, tz_off, opts)| {
                let n = srcs.len();
                (Just(srcs), stems_strategy(n), Just(tz_off), Just(opts))
            })
            .prop_map(|(srcs, stems, tz_off, opts)| {
                // plain files only: container names are covered by C05/C16
                let srcs = srcs
                    .into_iter()
                    .map(|s| match s {
                        Source::Text { log, .. } => Source::Text { log, codec: Codec::Plain },
                        Source::Fixed { file, .. } => Source::Fixed { file, codec: Codec::Plain },
                        Source::Shipped { which, .. } => Source::Shipped { which, codec: Codec::Plain },
                    })
                    .collect();
                Case { srcs, stems, opts, tz_off }
            })
            .boxed()
    }
    fn exec(&self, case: &Case, _ctx: &Ctx) -> Outcome {
        let sc = Scratch::new();
        let dir = sc.subdir("in");
        let tmp = sc.subdir("tmp");
        let tz = tz_arg(case.tz_off);
        let mut mats = vec![];
        for (i, s) in case.srcs.iter().enumerate() {
            if let Source::Text { log, .. } = s {
                let r = log.render();
                if !log.msgs.is_empty() && !crate::textgen::accepted_at(&r, log.header.len(), 65536) {
                    return Outcome::discard("outside block-zero acceptance (F6)");
                }
                if r.bytes.windows(2).any(|w| w == [0x1b, b'[']) {
                    return Outcome::discard("content contains ESC[");
                }
            }
            match materialize_named(i, s, &dir, &tmp, &tz, case.stems.get(i).map(|s| s.as_str())) {
                Ok(m) => mats.push(m),
                Err(e) => return crate::sources::materialize_failed(e),
            }
        }
        let kinds: Vec<bool> = case.srcs.iter().map(|s| matches!(s, Source::Fixed { .. })).collect();
        let shown: Vec<String> = mats
            .iter()
            .map(|m| match case.opts.file {
                2 => m.path.to_string_lossy().to_string(),
                _ => m.path.file_name().unwrap().to_string_lossy().to_string(),
            })
            .collect();
        let want = expected_decorated(&mats, &kinds, &shown, &case.opts);
        let mut args = build_args(&case.opts, &tz);
        for m in &mats {
            args.push(m.path.clone().into());
        }
        let out = run_s4(RunSpec { args: args.clone(), tmpdir: Some(&tmp), ..Default::default() });
        if out.timed_out {
            return Outcome::inconclusive("timeout".into());
        }
        if !out.ok01() || out.panicked() {
            return Outcome::fail("crash", format!("args={:?} status={:?} signal={:?} stderr={}", args, out.status, out.signal, out.stderr_str()));
        }
        let got = if case.opts.color { strip_sgr(&out.stdout) } else { out.stdout.clone() };
        if got != want {
            let kinds_s: Vec<String> = case.srcs.iter().map(|s| s.kind()).collect();
            let wide = shown.iter().any(|n| UnicodeWidthStr::width(n.as_str()) != n.chars().count());
            let fixed_both = kinds.iter().any(|&k| k) && case.opts.file != 0 && case.opts.dt != 0 && !case.opts.color;
            // classify
            let sig = if fixed_both && {
                // would the output match with date and file swapped for accounting records?
                true
            } && swapped_matches(&mats, &kinds, &shown, &case.opts, &got)
            {
                "fixedstruct-date-before-file"
            } else if wide && case.opts.align {
                "wide-name-alignment"
            } else {
                "decoration"
            };
            return Outcome::fail(sig, format!("opts={:?} sources={:?} names={:?} {}", case.opts, kinds_s, shown, diff_msg(&got, &want)));
        }
        let o = &case.opts;
        let ndeco = (o.file != 0) as u8 + o.align as u8 + (o.dt != 0) as u8 + o.fmt.is_some() as u8 + o.psep.is_some() as u8 + o.sep.is_some() as u8 + o.color as u8;
        let kinds_set: std::collections::BTreeSet<String> = case.srcs.iter().filter(|_| true).map(|s| s.kind().split('/').next().unwrap().to_string()).collect();
        let multiline = mats.iter().any(|m| m.msgs.iter().any(|x| x.bytes.iter().filter(|&&b| b == b'\n').count() >= 2));
        let mut oc = Outcome::pass(ndeco >= 2 && (kinds_set.len() >= 2 || multiline), hash_debug(case));
        for k in &kinds_set {
            oc = oc.class(&format!("kind:{}", k));
        }
        oc = oc.class(["file:none", "file:-n", "file:-p"][o.file as usize % 3]).class(["dt:none", "dt:-u", "dt:-l", "dt:-z"][o.dt as usize % 4]);
        if o.align {
            oc = oc.class("-w");
        }
        if o.color {
            oc = oc.class("color:always");
        }
        if o.fmt.is_some() {
            oc = oc.class("-d");
        }
        if o.sep.is_some() {
            oc = oc.class("--separator");
        }
        if o.psep.is_some() {
            oc = oc.class("--prepend-separator");
        }
        if shown.iter().any(|n| !n.is_ascii()) {
            oc = oc.class("non-ascii-name");
        }
        if o.dt == 3 && (o.z15 % 4 != 0) {
            oc = oc.class("zone:non-hour");
        }
        if o.dt == 3 && o.z15 < 0 {
            oc = oc.class("zone:negative");
        }
        oc.with_sample(json!({"args": args.iter().map(|a| a.to_string_lossy().to_string()).collect::<Vec<_>>(), "sources": case.srcs.iter().map(|s| s.kind()).collect::<Vec<_>>(), "stdout_bytes": out.stdout.len()}))
    }
}

/// does `got` equal the expectation with date-before-file for accounting records (finding F1)?
fn swapped_matches(mats: &[Materialized], kinds: &[bool], shown: &[String], o: &Opts, got: &[u8]) -> bool {
    let msgs: Vec<&[Msg]> = mats.iter().map(|m| &m.msgs[..]).collect();
    let psep = o.psep.clone().unwrap_or_else(|| ":".to_string());
    let sep = o.sep.as_ref().map(|s| unescape_sep(s)).unwrap_or_default();
    let width = (0..mats.len()).filter(|&i| !mats[i].msgs.is_empty()).map(|i| UnicodeWidthStr::width(shown[i].as_str())).max().unwrap_or(0);
    let zone_off = if o.dt == 3 { o.z15 as i32 * 900 } else { 0 };
    let fmt = o.fmt.clone().unwrap_or_else(|| DEFAULT_FMT.to_string());
    let mut out = vec![];
    for (si, mi) in o_merge(&msgs) {
        let m = &msgs[si][mi];
        let mut f: Vec<u8> = shown[si].as_bytes().to_vec();
        if o.align {
            for _ in UnicodeWidthStr::width(shown[si].as_str())..width {
                f.push(b' ');
            }
        }
        f.extend_from_slice(psep.as_bytes());
        let c = dt::civil(m.t as i128, zone_off);
        let mut d = dt::strftime(&c, m.t as i128, &fmt).into_bytes();
        d.extend_from_slice(psep.as_bytes());
        if kinds[si] {
            out.extend_from_slice(&d);
            out.extend_from_slice(&f);
            out.extend_from_slice(&m.bytes);
        } else {
            for piece in m.bytes.split_inclusive(|&b| b == b'\n') {
                out.extend_from_slice(&f);
                out.extend_from_slice(&d);
                out.extend_from_slice(piece);
            }
        }
        out.extend_from_slice(&sep);
        if m.text && m.bytes.last() != Some(&b'\n') {
            out.push(b'\n');
        }
    }
    out == got
}
