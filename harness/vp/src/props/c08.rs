//! C08 — accounting-record files: every record once, in time order.

use crate::bytes::esc_trunc;
use crate::containers::*;
use crate::engine::*;
use crate::fixedgen::*;
use crate::s4run::*;
use crate::window::*;
use proptest::prelude::*;
use serde::{Deserialize, Serialize};
use serde_json::json;

pub struct C08;

#[derive(Clone, Debug, Serialize, Deserialize)]
pub struct Case {
    pub file: FixedFile,
    pub codec: Codec,
    pub bs: u64,
    pub win: Option<WinSpec>,
}

/// split s4 stdout of a fixedstruct source into record lines (each line is followed by "\n\0")
pub fn split_records(out: &[u8]) -> Vec<Vec<u8>> {
    let mut v = vec![];
    for l in out.split(|&b| b == b'\n') {
        let l: &[u8] = if l.first() == Some(&0) { &l[1..] } else { l };
        if !l.is_empty() {
            v.push(l.to_vec());
        }
    }
    v
}

/// value of `name 'value'` in a printed line
pub fn quoted_field(line: &str, name: &str) -> Option<String> {
    let pat = format!("{} '", name);
    let mut from = 0;
    while let Some(i) = line[from..].find(&pat) {
        let i = from + i;
        // must be at a word boundary
        if i == 0 || line.as_bytes()[i - 1] == b' ' {
            let rest = &line[i + pat.len()..];
            return rest.find('\'').map(|e| rest[..e].to_string());
        }
        from = i + 1;
    }
    None
}

pub fn plain_field(line: &str, name: &str) -> Option<String> {
    let pat = format!("{} ", name);
    let mut from = 0;
    while let Some(i) = line[from..].find(&pat) {
        let i = from + i;
        if i == 0 || line.as_bytes()[i - 1] == b' ' {
            let rest = &line[i + pat.len()..];
            let e = rest.find(' ').unwrap_or(rest.len());
            return Some(rest[..e].to_string());
        }
        from = i + 1;
    }
    None
}

/// the printed order of records (as indices into file.recs) or an error; checks every field of every line
pub fn check_records(file: &FixedFile, lines: &[Vec<u8>], expected: &[usize]) -> Result<(), (String, String)> {
    let l = file.lay();
    // identify every printed line by its first string field
    let f0 = &l.strs[0];
    let mut by_val = std::collections::HashMap::new();
    for (i, _r) in file.recs.iter().enumerate() {
        by_val.insert(str_value_full(0, file.recs[i].serial, f0.cap, file.recs[i].full), i);
    }
    let mut got: Vec<usize> = vec![];
    for (k, line) in lines.iter().enumerate() {
        let ls = String::from_utf8_lossy(line).to_string();
        // FreeBSD prints `ut_line value'` (no opening quote): accept both spellings
        let v = quoted_field(&ls, f0.name).or_else(|| plain_field(&ls, f0.name).map(|s| s.trim_matches('\'').to_string()));
        let idx = match v.as_ref().and_then(|v| by_val.get(v)) {
            Some(i) => *i,
            None => return Err(("foreign-line".into(), format!("printed line #{} does not belong to any record: {:?}", k, esc_trunc(line, 300)))),
        };
        got.push(idx);
        let r = &file.recs[idx];
        for (fi, f) in l.strs.iter().enumerate() {
            let want = str_value_full(fi, r.serial, f.cap, r.full);
            let have = quoted_field(&ls, f.name).or_else(|| plain_field(&ls, f.name).map(|s| s.trim_matches('\'').to_string()));
            if have.as_deref() != Some(want.as_str()) {
                return Err(("field".into(), format!("line #{} record {}: field {} = {:?}, want {:?}; line {:?}", k, idx, f.name, have, want, esc_trunc(line, 300))));
            }
        }
        if let Some((name, _)) = l.pid {
            let have = plain_field(&ls, name);
            if have != Some(r.pid.to_string()) {
                return Err(("field".into(), format!("line #{} record {}: {} = {:?}, want {}; line {:?}", k, idx, name, have, r.pid, esc_trunc(line, 300))));
            }
        }
        if l.addr.is_some() {
            // words 1..3 zero: ` ut_addr a.b.c.d` from the bytes of word 0; else ` ut_addr_v6 W0:W1:W2:W3` (hex)
            let a = r.addr;
            let (name, want) = if a[1] == 0 && a[2] == 0 && a[3] == 0 {
                let b = a[0].to_le_bytes();
                ("ut_addr", format!("{}.{}.{}.{}", b[0], b[1], b[2], b[3]))
            } else {
                ("ut_addr_v6", format!("{:X}:{:X}:{:X}:{:X}", a[0], a[1], a[2], a[3]))
            };
            let have = plain_field(&ls, name);
            if have.as_deref() != Some(want.as_str()) {
                return Err(("field".into(), format!("line #{} record {}: {} = {:?}, want {}; line {:?}", k, idx, name, have, want, esc_trunc(line, 400))));
            }
        }
        let (sec, usec) = file.tv(idx);
        let want_t = if l.usec.is_some() { format!("{}.{}", sec, usec) } else { format!("{}", sec) };
        let have = plain_field(&ls, l.time_name);
        if have.as_deref() != Some(want_t.as_str()) {
            return Err(("field".into(), format!("line #{} record {}: {} = {:?}, want {}; line {:?}", k, idx, l.time_name, have, want_t, esc_trunc(line, 300))));
        }
    }
    if got != expected {
        // classify
        let mut g2 = got.clone();
        g2.sort();
        let mut e2 = expected.to_vec();
        e2.sort();
        let sig = if g2 == e2 {
            "order"
        } else if g2.windows(2).any(|w| w[0] == w[1]) {
            "duplicated"
        } else if e2.iter().any(|x| !g2.contains(x)) {
            "dropped"
        } else {
            "extra"
        };
        return Err((sig.into(), format!("layout {} printed records {:?}, expected {:?}", l.id, got, expected)));
    }
    Ok(())
}

impl Property for C08 {
    type Case = Case;
    fn id(&self) -> &'static str {
        "C08"
    }
    fn rule(&self) -> String {
        "case = synthesised record file for one of the 15 supported layouts (linux x86/arm64 utmpx+lastlog, linux acct/acct_v3, freebsd utmpx, netbsd 32/64 utmpx/utmp/lastlog/lastlogx/acct, openbsd utmp/lastlog), 1..60 (thorough 200) records with plausible field values (unique marker strings per record and field), time values drawn with duplicates, disorder and seconds-only resolution, null records (all 0x00, all 0xFF, time (0,0)) interleaved x container (plain/gz/bz2/xz/lz4/tar) x block size 64..65536 x optional window. oracle: printed records == live records stable-sorted by (sec,usec) (and filtered A<=t<=B), each printed line parsed back and every string field, pid and time compared with the generator's values. non-trivial = >=2 live records sharing a time value or >=1 inversion in file order; distinct = hash(case). Cases where s4 detects another layout than intended are discarded and counted.".into()
    }
    fn assumptions(&self) -> Vec<String> {
        vec!["layout offsets/sizes are taken from s4lib's public struct definitions".into(), "layout detection itself is not part of the property (mis-detected cases are discarded, counted)".into()]
    }
    fn cases(&self, tier: Tier) -> u32 {
        tier.pick(3000, 60000)
    }
    fn strategy(&self, tier: Tier) -> BoxedStrategy<Case> {
        let n = layouts().len();
        let max = tier.pick(60, 200);
        (fixed_file(max, (0..n).collect()), any_codec_or_plain(), prop_oneof![2 => 64u64..600, 1 => 600u64..70000], win_spec_or_none())
            .prop_map(|(file, codec, bs, win)| Case { file, codec, bs, win })
            .boxed()
    }
    fn probes(&self, _tier: Tier) -> Vec<(String, Case)> {
        let mut v = vec![];
        for (li, l) in layouts().iter().enumerate() {
            // duplicated time values, one per layout (finding F2 regression)
            let recs = (0..6).map(|k| FRec { sec: 1_600_000_000 + [0i64, 1, 1, 0, 2, 1][k], usec: 7, null: 0, pid: 100 + k as i32, typ: 6, serial: k as u32, full: 0, stale: 0, addr: [0; 4] }).collect();
            v.push((format!("dup-times-{}", l.id), Case { file: FixedFile { layout: li, recs }, codec: Codec::Plain, bs: 65536, win: None }));
        }
        v
    }
    fn exec(&self, case: &Case, _ctx: &Ctx) -> Outcome {
        let l = case.file.lay();
        let data = case.file.render();
        let sc = Scratch::new();
        let f = match wrap(&case.codec, &data, &sc.dir, l.fname, l.fname) {
            Ok(f) => f,
            Err(e) => return Outcome::inconclusive(e),
        };
        let order = case.file.expected_order();
        let instants: Vec<i64> = order.iter().map(|&i| case.file.t_ns(i)).collect();
        let w = case.win.as_ref().map(|w| w.resolve(&instants)).unwrap_or(Window::none());
        let expected: Vec<usize> = order.iter().cloned().filter(|&i| w.contains(case.file.t_ns(i))).collect();
        let mut args = osargs(["--color", "never", "-s", "-t=+00:00", "--blocksz"]);
        args.push(case.bs.to_string().into());
        for a in w.args() {
            args.push(a.into());
        }
        args.push(f.clone().into());
        let args2 = args.clone();
        let out = run_s4(RunSpec { args, tmpdir: Some(&sc.dir), ..Default::default() });
        if out.timed_out {
            return Outcome::inconclusive("timeout".into());
        }
        if !out.ok01() || out.panicked() {
            return Outcome::fail("crash", format!("status={:?} signal={:?} stderr={}", out.status, out.signal, esc_trunc(&out.stderr, 1500)));
        }
        // the same file and options must give the same output in another process (the layout scoring iterated a
        // HashMap: equal scores resolved differently from run to run, finding F24)
        let out2 = run_s4(RunSpec { args: args2, tmpdir: Some(&sc.dir), ..Default::default() });
        if out2.timed_out {
            return Outcome::inconclusive("timeout".into());
        }
        if out2.stdout != out.stdout || out2.status != out.status {
            let ty = |o: &RunOut| o.stderr_str().lines().filter(|l| l.contains("fixedstructtype:")).map(|l| l.split(':').nth(1).unwrap_or("").trim().to_string()).collect::<Vec<_>>();
            return Outcome::fail("nondeterministic", format!("codec={} bs={} window={:?}: two runs of the same command differ: layouts {:?} vs {:?}; {}", case.codec.kind(), case.bs, w.args(), ty(&out), ty(&out2), crate::bytes::diff_msg(&out2.stdout, &out.stdout)));
        }
        let err = out.stderr_str();
        let live = order.len();
        if live > 0 {
            let detected = err.lines().filter(|l| l.contains("fixedstructtype:")).map(|l| l.split(':').nth(1).unwrap_or("").trim().to_string()).collect::<Vec<_>>();
            if !detected.iter().any(|d| d == l.summary_name) {
                if detected.iter().any(|d| d.starts_with("Fs_")) {
                    return Outcome::discard("other layout detected");
                }
                if expected.is_empty() {
                    // nothing selected: s4 may stop before reporting the layout
                } else {
                    return Outcome::discard("layout not detected");
                }
            }
        }
        let lines = split_records(&out.stdout);
        if let Err((sig, msg)) = check_records(&case.file, &lines, &expected) {
            return Outcome::fail(&sig, format!("codec={} bs={} window={:?} {}", case.codec.kind(), case.bs, w.args(), msg));
        }
        let tvs: Vec<(i64, i64)> = (0..case.file.recs.len()).filter(|&i| case.file.live(i)).map(|i| case.file.tv(i)).collect();
        let dup = {
            let mut s = tvs.clone();
            s.sort();
            s.windows(2).any(|w| w[0] == w[1])
        };
        let inv = tvs.windows(2).any(|w| w[0] > w[1]);
        let mut o = Outcome::pass(dup || inv, hash_debug(case));
        if dup {
            o = o.class("equal-time-values");
        }
        if inv {
            o = o.class("out-of-order");
        }
        if case.file.recs.iter().any(|r| r.null != 0) {
            o = o.class("null-records");
        }
        if case.win.is_some() {
            o = o.class("with-window");
            if expected.len() < order.len() && !expected.is_empty() {
                o = o.class("window-cuts");
            }
        }
        o = o.class(&format!("layout:{}", l.id)).class(&format!("codec:{}", case.codec.kind()));
        o.with_sample(json!({"layout": l.id, "records": case.file.recs.len(), "live": live, "codec": case.codec.kind(), "bs": case.bs, "window": w.args(),
            "times": tvs.iter().take(8).collect::<Vec<_>>()}))
    }
}
