//! C16 — the reader for a file is chosen from its name alone, for every name.

use crate::bytes::B;
use crate::engine::*;
use proptest::prelude::*;
use s4lib::common::{FileType, FileTypeArchive, FileTypeFixedStruct};
use s4lib::readers::filepreprocessor::{path_to_filetype, PathToFiletypeResult};
use serde::{Deserialize, Serialize};
use serde_json::json;
use std::ffi::OsString;
use std::os::unix::ffi::OsStringExt;
use std::path::PathBuf;

pub struct C16;

#[derive(Clone, Copy, Debug, PartialEq, Eq, Hash, Serialize, Deserialize)]
pub enum Reader {
    Text,
    Evtx,
    Journal,
    Utmp,
    Utmpx,
    Lastlog,
    Lastlogx,
    Acct,
    AcctV3,
    Tar,
    Unparsable,
}

#[derive(Clone, Copy, Debug, PartialEq, Eq, Hash, Serialize, Deserialize)]
pub enum Cont {
    None,
    Gz,
    Bz2,
    Xz,
    Lz4,
}

pub type Class = (Reader, Cont);

/// what the code under test says
pub fn observed(name: &std::ffi::OsStr, unparseable_are_text: bool) -> Result<Class, String> {
    let p = PathBuf::from(name);
    let r = std::panic::catch_unwind(|| path_to_filetype(&p, unparseable_are_text)).map_err(|_| "panic".to_string())?;
    let cont = |a: FileTypeArchive| match a {
        FileTypeArchive::Normal => Ok(Cont::None),
        FileTypeArchive::Gz => Ok(Cont::Gz),
        FileTypeArchive::Bz2 => Ok(Cont::Bz2),
        FileTypeArchive::Xz => Ok(Cont::Xz),
        FileTypeArchive::Lz4 => Ok(Cont::Lz4),
        FileTypeArchive::Tar => Err("container Tar reported for a name".to_string()),
    };
    Ok(match r {
        PathToFiletypeResult::Filetype(ft) => match ft {
            FileType::Text { archival_type, .. } => (Reader::Text, cont(archival_type)?),
            FileType::Evtx { archival_type } => (Reader::Evtx, cont(archival_type)?),
            FileType::Journal { archival_type } => (Reader::Journal, cont(archival_type)?),
            FileType::FixedStruct { archival_type, fixedstruct_type } => (
                match fixedstruct_type {
                    FileTypeFixedStruct::Utmp => Reader::Utmp,
                    FileTypeFixedStruct::Utmpx => Reader::Utmpx,
                    FileTypeFixedStruct::Lastlog => Reader::Lastlog,
                    FileTypeFixedStruct::Lastlogx => Reader::Lastlogx,
                    FileTypeFixedStruct::Acct => Reader::Acct,
                    FileTypeFixedStruct::AcctV3 => Reader::AcctV3,
                },
                cont(archival_type)?,
            ),
            FileType::Unparsable => (Reader::Unparsable, Cont::None),
        },
        PathToFiletypeResult::Archive(_, a) => (Reader::Tar, cont(a)?),
    })
}

// ---- reference classifier, written from the property statement -------------------------------

pub const TYPE_WORDS: &[(&str, Reader)] = &[
    ("utmp", Reader::Utmp),
    ("wtmp", Reader::Utmp),
    ("btmp", Reader::Utmp),
    ("utmpx", Reader::Utmpx),
    ("wtmpx", Reader::Utmpx),
    ("btmpx", Reader::Utmpx),
    ("lastlog", Reader::Lastlog),
    ("lastlogx", Reader::Lastlogx),
    ("acct", Reader::Acct),
    ("pacct", Reader::AcctV3),
    ("journal", Reader::Journal),
    ("evtx", Reader::Evtx),
    ("log", Reader::Text),
    ("txt", Reader::Text),
    ("text", Reader::Text),
];
/// whole-name words (no dot) recognised as text logs
pub const TEXT_NAMES: &[&str] = &["dmesg", "history", "kernellog", "kernelog", "kernlog", "log", "messages", "syslog"];
pub const COMPRESSION: &[(&str, Cont)] = &[("gz", Cont::Gz), ("gzip", Cont::Gz), ("bz2", Cont::Bz2), ("xz", Cont::Xz), ("xzip", Cont::Xz), ("lz4", Cont::Lz4)];
pub const NONLOG: &[&str] = &[
    "7z", "a", "aac", "aux", "avi", "bat", "bin", "bmp", "bz", "c", "cat", "class", "cpp", "cmd", "diagpkg", "dll", "ear", "exe", "flac", "flv", "gif", "h", "hpp", "htm", "html", "ico", "jar", "java", "jpeg", "jpg", "lib", "m4b",
    "m4p", "m4r", "m4v", "mkv", "mov", "mp3", "mp4", "msi", "mui", "o", "ogg", "opus", "pl", "png", "ps1", "psd1", "py", "rb", "sh", "so", "svg", "sys", "tif", "tiff", "ttf", "tgz", "war", "wav", "webm", "webp", "wma", "wmv", "zip",
];
const TRAIL_JUNK: &[char] = &['~', '-', ',', '?', ';'];
const LEAD_JUNK: &[char] = &['~', '-', ',', '?', ';', '.'];

fn is_numeric(s: &str) -> bool {
    let t = s.strip_prefix('+').or_else(|| s.strip_prefix('-')).unwrap_or(s);
    !t.is_empty() && t.chars().all(|c| c.is_ascii_digit())
}

/// Reference: scan dot-separated components from the right. Names of the generated grammar only (UTF-8).
pub fn reference(name: &str, unparseable_are_text: bool) -> Class {
    let fallback = if unparseable_are_text { Reader::Text } else { Reader::Unparsable };
    let mut cont = Cont::None;
    let mut cur: String = name.to_string();
    loop {
        // junk characters around the name are ignored
        let t = cur.trim_end_matches(TRAIL_JUNK).trim_start_matches(LEAD_JUNK).to_string();
        if t.is_empty() {
            return (fallback, if fallback == Reader::Unparsable { Cont::None } else { cont });
        }
        match t.rfind('.') {
            Some(i) if i > 0 => {
                let ext = t[i + 1..].to_ascii_lowercase();
                let rest = t[..i].to_string();
                if ext.is_empty() || is_numeric(&ext) {
                    cur = rest;
                    continue;
                }
                if let Some((_, c)) = COMPRESSION.iter().find(|(w, _)| *w == ext) {
                    cont = *c;
                    cur = rest;
                    continue;
                }
                if ext == "tar" {
                    return (Reader::Tar, cont);
                }
                if let Some((_, r)) = TYPE_WORDS.iter().find(|(w, _)| *w == ext) {
                    return (*r, cont);
                }
                if NONLOG.contains(&ext.as_str()) {
                    return (fallback, if fallback == Reader::Unparsable { Cont::None } else { cont });
                }
                // unrecognised component (rotation suffix such as .old): skipped
                cur = rest;
            }
            _ => {
                let w = t.to_ascii_lowercase();
                if let Some((_, r)) = TYPE_WORDS.iter().find(|(tw, _)| *tw == w && *tw != "evtx" && *tw != "txt" && *tw != "text") {
                    return (*r, cont);
                }
                return (Reader::Text, cont);
            }
        }
    }
}

// ---- cases ------------------------------------------------------------------------------------

#[derive(Clone, Debug, Serialize, Deserialize)]
pub struct Grammar {
    pub lead: String,
    pub stem: String,
    /// components left of the compression suffix (each without the dot)
    pub comps_a: Vec<String>,
    pub compression: Option<String>,
    /// components right of the compression suffix
    pub comps_b: Vec<String>,
    pub trail: String,
    pub dir: String,
}

impl Grammar {
    pub fn name(&self) -> String {
        let mut s = format!("{}{}", self.lead, self.stem);
        for c in &self.comps_a {
            s.push('.');
            s.push_str(c);
        }
        if let Some(c) = &self.compression {
            s.push('.');
            s.push_str(c);
        }
        for c in &self.comps_b {
            s.push('.');
            s.push_str(c);
        }
        s.push_str(&self.trail);
        s
    }
    pub fn path(&self) -> String {
        format!("{}{}", self.dir, self.name())
    }
}

#[derive(Clone, Debug, Serialize, Deserialize)]
pub enum Case {
    Grammar(Grammar),
    Arbitrary(B),
    /// end to end: a small valid log stored under the decorated name must print what it prints under the plain name
    EndToEnd(Grammar),
}

fn case_variant(w: &str, mode: u8) -> String {
    match mode % 4 {
        0 => w.to_string(),
        1 => w.to_ascii_uppercase(),
        2 => {
            let mut c = w.chars();
            match c.next() {
                Some(f) => f.to_ascii_uppercase().to_string() + c.as_str(),
                None => String::new(),
            }
        }
        _ => w.chars().enumerate().map(|(i, c)| if i % 2 == 1 { c.to_ascii_uppercase() } else { c }).collect(),
    }
}

pub const UNKNOWN_WORDS: &[&str] = &["old", "bak", "backup", "orig", "prev", "rotated", "save", "host-a", "v2x", "x_y", "data", "node"];
pub const NUMERIC: &[&str] = &["1", "2", "10", "007", "20230101", "+5", "-3", "0", "2147483647", "99999999999"];

fn stems() -> Vec<String> {
    let mut v: Vec<String> = vec![];
    for (w, _) in TYPE_WORDS {
        if *w != "evtx" {
            v.push(w.to_string());
        }
    }
    for w in TEXT_NAMES {
        v.push(w.to_string());
    }
    for w in ["app", "server-a", "mywtmp", "wtmpfile", "log_app", "app_log", "auth", "x"] {
        v.push(w.to_string());
    }
    v
}

fn comp_strategy() -> BoxedStrategy<String> {
    prop_oneof![
        4 => prop::sample::select(NUMERIC.to_vec()).prop_map(|s| s.to_string()),
        4 => (prop::sample::select(UNKNOWN_WORDS.to_vec()), any::<u8>()).prop_map(|(w, m)| case_variant(w, m)),
        1 => (prop::sample::select(TYPE_WORDS.iter().map(|t| t.0).collect::<Vec<_>>()), any::<u8>()).prop_map(|(w, m)| case_variant(w, m)),
        1 => prop::sample::select(NONLOG.to_vec()).prop_map(|s| s.to_string()),
        1 => Just("tar".to_string()),
    ]
    .boxed()
}

fn junk(set: &'static [char], max: usize) -> BoxedStrategy<String> {
    prop::collection::vec(prop::sample::select(set.to_vec()), 0..=max).prop_map(|v| v.into_iter().collect()).boxed()
}

pub fn grammar() -> BoxedStrategy<Grammar> {
    (
        junk(LEAD_JUNK, 3),
        (prop::sample::select(stems()), any::<u8>()).prop_map(|(w, m)| case_variant(&w, m)),
        prop::collection::vec(comp_strategy(), 0..=3),
        prop::option::of((prop::sample::select(COMPRESSION.iter().map(|c| c.0).collect::<Vec<_>>()), any::<u8>()).prop_map(|(w, m)| case_variant(w, m))),
        prop::collection::vec(comp_strategy(), 0..=2),
        junk(TRAIL_JUNK, 3),
        prop::sample::select(vec!["", "/var/log/", "relative/dir.d/", "/a.gz/", "./"]),
    )
        .prop_map(|(lead, stem, comps_a, compression, comps_b, trail, dir)| Grammar { lead, stem, comps_a, compression, comps_b, trail, dir: dir.to_string() })
        .boxed()
}

fn check_grammar(g: &Grammar) -> Result<(Class, Vec<String>), String> {
    let mut classes = vec![];
    let path = g.path();
    for flag in [true, false] {
        let obs = observed(std::ffi::OsStr::new(&path), flag)?;
        let want = reference(&g.name(), flag);
        if obs != want {
            // known finding F11: lead junk of >=2 characters ending in '.', directly before a dot-less name that is not an
            // extension type word, is classified Unparsable when unparseable_are_text is false (e.g. `~.dmesg`, `-.app`)
            // (also reached after rotation / compression components have been stripped: `~.dmesg.1`, `-.app.gz`)
            let dotless = !g.stem.contains('.');
            if !flag && obs.0 == Reader::Unparsable && want.0 == Reader::Text && dotless && g.lead.len() >= 2 && g.lead.ends_with('.') {
                return Err(format!("KNOWN leadjunk-dot: name {:?} unparseable_are_text=false classified {:?}, reference {:?}", path, obs, want));
            }
            return Err(format!("name {:?} unparseable_are_text={} classified {:?}, reference {:?}", path, flag, obs, want));
        }
    }
    let base = observed(std::ffi::OsStr::new(&path), true)?;
    // metamorphic: case, rotation components, junk must not change the class
    let mut g2 = g.clone();
    g2.stem = g.stem.to_ascii_uppercase();
    g2.comps_a = g.comps_a.iter().map(|c| c.to_ascii_uppercase()).collect();
    g2.comps_b = g.comps_b.iter().map(|c| c.to_ascii_uppercase()).collect();
    g2.compression = g.compression.as_ref().map(|c| c.to_ascii_uppercase());
    let o2 = observed(std::ffi::OsStr::new(&g2.path()), true)?;
    if o2 != base {
        return Err(format!("case change {:?} -> {:?} changed class {:?} -> {:?}", path, g2.path(), base, o2));
    }
    let mut g3 = g.clone();
    g3.comps_b.push("1".into());
    g3.comps_b.push("OLD".into());
    g3.trail.push('~');
    g3.lead.insert(0, '-');
    let o3 = observed(std::ffi::OsStr::new(&g3.path()), true)?;
    if o3 != base {
        return Err(format!("rotation/junk decoration {:?} -> {:?} changed class {:?} -> {:?}", path, g3.path(), base, o3));
    }
    // adding one compression suffix changes only the container
    if g.compression.is_none() && !g.comps_a.iter().chain(g.comps_b.iter()).any(|c| COMPRESSION.iter().any(|x| x.0 == c.to_ascii_lowercase())) {
        let mut g4 = g.clone();
        g4.comps_b.push("bz2".into());
        let o4 = observed(std::ffi::OsStr::new(&g4.path()), true)?;
        if o4.0 != base.0 || o4.1 != Cont::Bz2 {
            return Err(format!("adding .bz2 to {:?} gave {:?}, base {:?}", path, o4, base));
        }
        classes.push("compression-added".to_string());
    }
    Ok((base, classes))
}

impl Property for C16 {
    type Case = Case;
    fn id(&self) -> &'static str {
        "C16"
    }
    fn rule(&self) -> String {
        "in-process over s4lib::readers::filepreprocessor::path_to_filetype. Grammar names: lead_junk{0..3} stem('.'comp){0..3}('.'compression)?('.'comp){0..2} trail_junk{0..3} under 5 directory prefixes; stems = every type word / text name / unknown words in 4 case variants; comps = numeric forms, unknown words, occasionally type words, non-log suffixes, tar. oracle: an independent reference classifier written from the statement must agree for both values of unparseable_are_text, and metamorphic relations hold (upper-casing, added rotation components and junk do not change the class; adding one compression suffix changes only the container). Arbitrary names (random bytes incl. non-UTF-8, dots only, empty, 4 KiB): terminates, no panic, never Unparsable when unparseable_are_text. The finite core (type word x 4 cases x <=2 rotation comps x compression x junk class) is enumerated exhaustively in the extra phase. non-trivial = >=2 decorations (junk, rotation comps, case change, compression) on a name with a type word; distinct = the name.".into()
    }
    fn assumptions(&self) -> Vec<String> {
        vec!["a bare file name `evtx` (no dot) is outside the grammar (the program reads it as text)".into(), "names with two different compression suffixes are outside the grammar".into()]
    }
    fn cases(&self, tier: Tier) -> u32 {
        tier.pick(20000, 400000)
    }
    fn inprocess(&self) -> bool {
        true
    }
    fn strategy(&self, _tier: Tier) -> BoxedStrategy<Case> {
        let arb = prop_oneof![
            3 => prop::collection::vec(any::<u8>(), 0..40),
            2 => prop::collection::vec(prop_oneof![Just(b'.'), Just(b'~'), Just(b'-'), Just(b'a'), Just(b'1'), Just(0xffu8), Just(b'/'), Just(b'g'), Just(b'z')], 0..30),
            1 => prop::collection::vec(Just(b'.'), 0..12),
            1 => (1usize..5000).prop_map(|n| vec![b'w'; n]),
            1 => (prop::collection::vec(any::<u8>(), 0..20), prop::sample::select(vec![".gz", ".wtmp", ".tar", ".journal", ".1", ".evtx.xz", ""])).prop_map(|(mut v, s)| {
                v.extend_from_slice(s.as_bytes());
                v
            }),
        ]
        .prop_map(|v| Case::Arbitrary(B(v.into_iter().filter(|&b| b != 0).collect())));
        prop_oneof![400 => grammar().prop_map(Case::Grammar), 100 => arb, 3 => grammar().prop_map(Case::EndToEnd)].boxed()
    }
    fn extra(&self, _ctx: &Ctx, st: &mut Stats) {
        // exhaustive finite core
        let comps: Vec<&str> = vec!["1", "20230101", "old", "+5"];
        let mut n = 0u64;
        let words: Vec<&str> = TYPE_WORDS.iter().map(|t| t.0).filter(|w| *w != "evtx").chain(TEXT_NAMES.iter().cloned()).collect();
        let comp_seqs: Vec<Vec<&str>> = {
            let mut v: Vec<Vec<&str>> = vec![vec![]];
            for a in &comps {
                v.push(vec![a]);
                for b in &comps {
                    v.push(vec![a, b]);
                }
            }
            v
        };
        let compressions: Vec<Option<&str>> = std::iter::once(None).chain(COMPRESSION.iter().map(|c| Some(c.0))).collect();
        let junks = [("", ""), ("~", ""), ("", "~"), ("-", ";"), (".", ","), ("?;", "-~")];
        for w in &words {
            for mode in 0..4u8 {
                for ca in &comp_seqs {
                    for cz in &compressions {
                        for cb in &comp_seqs[..5] {
                            for (l, t) in junks.iter() {
                                // type word may be the stem, or an extension of an unknown stem
                                for as_ext in [false, true] {
                                    if as_ext && TEXT_NAMES.contains(w) && *w != "log" {
                                        continue;
                                    }
                                    let g = Grammar {
                                        lead: l.to_string(),
                                        stem: if as_ext { format!("host.{}", case_variant(w, mode)) } else { case_variant(w, mode) },
                                        comps_a: ca.iter().map(|s| s.to_string()).collect(),
                                        compression: cz.map(|s| s.to_string()),
                                        comps_b: cb.iter().map(|s| s.to_string()).collect(),
                                        trail: t.to_string(),
                                        dir: String::new(),
                                    };
                                    n += 1;
                                    for flag in [true, false] {
                                        let r = observed(std::ffi::OsStr::new(&g.name()), flag).and_then(|o| {
                                            let want = reference(&g.name(), flag);
                                            if o == want {
                                                Ok(())
                                            } else {
                                                Err(format!("classified {:?}, reference {:?}", o, want))
                                            }
                                        });
                                        if let Err(e) = r {
                                            let msg = format!("exhaustive core: name {:?} flag={} {}", g.name(), flag, e);
                                            eprintln!("[C16] {}", msg);
                                            let dir = verif_root().join("replays");
                                            let _ = std::fs::create_dir_all(&dir);
                                            let p = dir.join(format!("C16-exh-{:016x}.json", fnv(msg.as_bytes())));
                                            let _ = std::fs::write(&p, serde_json::to_string_pretty(&json!({"property":"C16","case":Case::Grammar(g.clone()),"msg":msg})).unwrap());
                                            st.violations.push(("reference".into(), msg, p));
                                            return;
                                        }
                                    }
                                    if (ca.len() + cb.len() >= 1) as u8 + (cz.is_some()) as u8 + (!l.is_empty() || !t.is_empty()) as u8 + (mode != 0) as u8 >= 2 {
                                        st.nontrivial_keys.insert(fnv(g.name().as_bytes()));
                                    }
                                }
                            }
                        }
                    }
                }
            }
        }
        st.evaluations += n;
        st.extra.insert("exhaustive_core".into(), json!({"names": n, "exhaustive": true, "dimensions": "type/text word x 4 case variants x stem-or-extension x <=2 rotation comps before x compression (7) x <=1 comp after x 6 junk classes"}));
    }
    fn exec(&self, case: &Case, _ctx: &Ctx) -> Outcome {
        if std::env::var_os("VP_TRACE_C16").is_some() {
            eprintln!("C16 case {:?}", case);
        }
        match case {
            Case::Grammar(g) => match check_grammar(g) {
                Err(e) => {
                    let sig = if e == "panic" {
                        "panic"
                    } else if e.starts_with("KNOWN leadjunk-dot") {
                        "leadjunk-dot"
                    } else if e.contains("reference") {
                        "reference"
                    } else {
                        "metamorphic"
                    };
                    Outcome::fail(sig, e)
                }
                Ok((class, extra)) => {
                    let decorations = (!g.lead.is_empty() || !g.trail.is_empty()) as u8 + (g.comps_a.len() + g.comps_b.len() > 0) as u8 + g.compression.is_some() as u8 + (g.stem.chars().any(|c| c.is_ascii_uppercase())) as u8;
                    let has_type = class.0 != Reader::Text || TYPE_WORDS.iter().any(|t| g.name().to_ascii_lowercase().contains(t.0));
                    let mut o = Outcome::pass(decorations >= 2 && has_type, fnv(g.path().as_bytes()));
                    o.evals = 6;
                    o = o.class(&format!("reader:{:?}", class.0)).class(&format!("container:{:?}", class.1));
                    for c in extra {
                        o = o.class(&c);
                    }
                    o.with_sample(json!({"name": g.path(), "class": format!("{:?}", class)}))
                }
            },
            Case::EndToEnd(g) => {
                use crate::s4run::*;
                let class = reference(&g.name(), true);
                // content matching the reader chosen by the name
                let (content, plain_name): (Vec<u8>, &str) = match class.0 {
                    Reader::Text => (b"2020-01-02T03:04:05.000000+00:00 #a one\n2020-01-02T03:04:06.000000+00:00 #b two\n".to_vec(), "plain.log"),
                    Reader::Utmp | Reader::Utmpx => {
                        let ff = crate::fixedgen::FixedFile { layout: 0, recs: (0..3).map(|k| crate::fixedgen::FRec { sec: 1_600_000_000 + k, usec: 1, null: 0, pid: 5, typ: 6, serial: k as u32, full: 0, stale: 0, addr: [0; 4] }).collect() };
                        (ff.render(), "plain.wtmp")
                    }
                    _ => return Outcome::discard("end-to-end sample only for text and utmp names"),
                };
                let data = match class.1 {
                    Cont::None => content.clone(),
                    Cont::Gz => {
                        use std::io::Write;
                        let mut e = flate2::write::GzEncoder::new(Vec::new(), flate2::Compression::default());
                        e.write_all(&content).unwrap();
                        e.finish().unwrap()
                    }
                    _ => return Outcome::discard("end-to-end sample only plain and gz"),
                };
                let name = g.name();
                if name.len() > 200 || name.contains('/') {
                    return Outcome::discard("name not usable as a single file name");
                }
                let sc = Scratch::new();
                let a = sc.write(plain_name, &content);
                let b = sc.write(&format!("d/{}", name), &data);
                let run = |p: &std::path::Path| {
                    let mut args = osargs(["--color", "never", "-t=+00:00"]);
                    args.push(p.into());
                    run_s4(RunSpec { args, tmpdir: Some(&sc.dir), ..Default::default() })
                };
                let (oa, ob) = (run(&a), run(&b));
                if oa.timed_out || ob.timed_out {
                    return Outcome::inconclusive("timeout".into());
                }
                if !ob.ok01() || ob.panicked() {
                    return Outcome::fail("crash", format!("name {:?}: status={:?} signal={:?} stderr={}", name, ob.status, ob.signal, ob.stderr_str()));
                }
                if oa.stdout != ob.stdout || oa.stdout.is_empty() {
                    return Outcome::fail("end-to-end", format!("name {:?} (reference class {:?}) prints {} bytes, the plain name prints {} bytes", name, class, ob.stdout.len(), oa.stdout.len()));
                }
                let mut o = Outcome::pass(true, fnv(name.as_bytes()) ^ 0x5555).class("end-to-end");
                o.evals = 2;
                // the same name as a member of a tar archive: at the top level and below directories
                if class.1 == Cont::None && name.is_ascii() && !name.is_empty() && name != "." && name != ".." {
                    for (k, member) in [name.clone(), format!("var/log/{}", name)].iter().enumerate() {
                        let tdir = sc.subdir(&format!("t{}", k));
                        let tarf = match crate::containers::wrap(&crate::containers::Codec::Tar { format: 1, pos: 0, decoys: 0, mtime: 1_600_000_000, longname: false }, &content, &tdir, "logs", member) {
                            Ok(f) => f,
                            Err(e) => return Outcome::inconclusive(e),
                        };
                        let oc = run(&tarf);
                        if oc.timed_out {
                            return Outcome::inconclusive("timeout".into());
                        }
                        if !oc.ok01() || oc.panicked() {
                            return Outcome::fail("crash", format!("tar member {:?}: status={:?} signal={:?} stderr={}", member, oc.status, oc.signal, oc.stderr_str()));
                        }
                        if oc.stdout != oa.stdout {
                            return Outcome::fail("end-to-end-tar", format!("tar member {:?} (reference class {:?}) prints {} bytes, the plain name prints {} bytes", member, class, oc.stdout.len(), oa.stdout.len()));
                        }
                        o.evals += 1;
                    }
                    o = o.class("end-to-end-tar-member");
                }
                o
            }
            Case::Arbitrary(b) => {
                let name = OsString::from_vec(b.0.clone());
                for flag in [true, false] {
                    match observed(&name, flag) {
                        Err(e) => return Outcome::fail(if e == "panic" { "panic" } else { "arbitrary" }, format!("name {:?} flag={} {}", b, flag, e)),
                        Ok((r, _)) => {
                            if flag && r == Reader::Unparsable {
                                return Outcome::fail("unparsable", format!("name {:?}: Unparsable although unparseable_are_text", b));
                            }
                        }
                    }
                }
                let nonutf8 = std::str::from_utf8(&b.0).is_err();
                let mut o = Outcome::pass(nonutf8 || b.0.len() > 255, fnv(&b.0)).class("arbitrary");
                if nonutf8 {
                    o = o.class("non-utf8");
                }
                o
            }
        }
    }
}
