//! C03 — a datetime window selects exactly the messages inside it.

use crate::bytes::diff_msg;
use crate::containers::*;
use crate::engine::*;
use crate::s4run::*;
use crate::textgen::*;
use crate::window::*;
use proptest::prelude::*;
use serde::{Deserialize, Serialize};
use serde_json::json;

pub struct C03;

#[derive(Clone, Debug, Serialize, Deserialize)]
pub struct TextCase {
    pub log: TextLog,
    pub codec: Codec,
    pub bs: u64,
    pub wins: Vec<WinSpec>,
}

/// the window semantics are the same for every kind of source: the other kinds reuse the oracles of C08/C10/C09
#[derive(Clone, Debug, Serialize, Deserialize)]
pub enum Case {
    Text(TextCase),
    Records(crate::props::c08::Case),
    Evtx(crate::props::c10::Case),
    Journal(crate::props::c09::Case),
}

/// expected stdout for a text log under a window: selected messages in file order, final newline supplied
pub fn expected_text(r: &Rendered, log: &TextLog, w: &Window) -> (Vec<u8>, usize) {
    let mut out = Vec::new();
    let mut n = 0;
    for (i, m) in log.msgs.iter().enumerate() {
        if w.contains(m.t) {
            let (a, b) = r.spans[i];
            out.extend_from_slice(&r.bytes[a..b]);
            n += 1;
        }
    }
    if !out.is_empty() && out.last() != Some(&b'\n') {
        out.push(b'\n');
    }
    (out, n)
}

impl Property for C03 {
    type Case = Case;
    fn id(&self) -> &'static str {
        "C03"
    }
    fn rule(&self) -> String {
        "case = chronologically ordered generated text log (ties frequent; message lengths 30 B..several blocks) stored plain (binary search) or gz/bz2/xz/lz4/tar (linear scan) x block size 64..65536 x 1..4 windows whose bounds are placed relative to message instants (on an instant, +-1us, +-1ms, +-1s, between, before first, after last, A=B, A only, B only); oracle: stdout == {m : A<=t(m)<=B} in file order from the generator's instants, exit status 0 also for empty selections. non-trivial = window cuts the source (0<selected<all) or a bound equals a message instant; distinct = hash(file bytes, codec, block size, resolved window). 40% of the cases are accounting-record files (any order, 15 layouts), the shipped evtx file and the shipped journals with windows placed relative to their record/entry times, decided by the reference models of C08/C10/C09 (stable time order + inclusive filter; independent readers evtx crate / journalctl).".into()
    }
    fn assumptions(&self) -> Vec<String> {
        vec!["window bounds are passed as %Y-%m-%dT%H:%M:%S.%6f+00:00 (the finest resolution the CLI accepts)".into(), "files outside the block-zero acceptance heuristic excluded (F6)".into()]
    }
    fn cases(&self, tier: Tier) -> u32 {
        tier.pick(600, 10000)
    }
    fn strategy(&self, tier: Tier) -> BoxedStrategy<Case> {
        let max_msgs = tier.pick(40, 150);
        let bs = prop_oneof![3 => 64u64..300, 2 => 300u64..5000, 1 => Just(65536u64), 1 => 5000u64..70000];
        let text = (bs, any_codec_or_plain())
            .prop_flat_map(move |(bs, codec)| {
                let p = TextParams { min_msgs: 1, max_msgs, steer_bs: bs.min(4096) as usize, max_mult: 3, accept_bs: vec![bs], ..TextParams::default() };
                (text_log(p), Just(bs), Just(codec), prop::collection::vec(win_spec(), 1..=4))
            })
            .prop_map(|(log, bs, codec, wins)| Case::Text(TextCase { log, codec, bs, wins }));
        // accounting records, event logs and journals: always with a window
        let recs = crate::props::c08::C08.strategy(tier).prop_flat_map(|c| (Just(c), win_spec())).prop_map(|(mut c, w)| {
            c.win = Some(w);
            Case::Records(c)
        });
        let evtx = crate::props::c10::C10.strategy(tier).prop_flat_map(|c| (Just(c), win_spec())).prop_map(|(mut c, w)| {
            c.win = Some(w);
            Case::Evtx(c)
        });
        let journal = crate::props::c09::C09.strategy(tier).prop_flat_map(|c| (Just(c), win_spec())).prop_map(|(mut c, w)| {
            c.win = Some(w);
            Case::Journal(c)
        });
        prop_oneof![6 => text, 2 => recs, 1 => evtx, 1 => journal].boxed()
    }
    fn exec(&self, case: &Case, ctx: &Ctx) -> Outcome {
        let case = match case {
            Case::Text(t) => t,
            Case::Records(c) => return crate::props::c08::C08.exec(c, ctx).class("kind:accounting-records"),
            Case::Evtx(c) => return crate::props::c10::C10.exec(c, ctx).class("kind:evtx"),
            Case::Journal(c) => return crate::props::c09::C09.exec(c, ctx).class("kind:journal"),
        };
        let r = case.log.render();
        if case.log.msgs.is_empty() {
            return Outcome::discard("no messages");
        }
        if !accepted_at(&r, case.log.header.len(), case.bs) {
            return Outcome::discard("outside block-zero acceptance (F6)");
        }
        let sc = Scratch::new();
        let f = match wrap(&case.codec, &r.bytes, &sc.dir, "a.log", "a.log") {
            Ok(f) => f,
            Err(e) => return Outcome::inconclusive(e),
        };
        let instants: Vec<i64> = case.log.msgs.iter().map(|m| m.t).collect();
        let mut nontrivial = false;
        let mut key = fnv(&r.bytes) ^ hash_debug(&(&case.codec, case.bs));
        let mut o_classes = vec![];
        let mut evals = 0;
        for ws in &case.wins {
            let w = ws.resolve(&instants);
            let (want, nsel) = expected_text(&r, &case.log, &w);
            let mut args = osargs(["--color", "never", "--blocksz"]);
            args.push(case.bs.to_string().into());
            args.push(case.log.tz_arg().into());
            for a in w.args() {
                args.push(a.into());
            }
            args.push(f.clone().into());
            let out = run_s4(RunSpec { args, tmpdir: Some(&sc.dir), ..Default::default() });
            evals += 1;
            if out.timed_out {
                return Outcome::inconclusive("s4 timed out".into());
            }
            if out.signal.is_some() || out.panicked() {
                return Outcome::fail("crash", format!("status={:?} signal={:?} stderr={}", out.status, out.signal, out.stderr_str()));
            }
            if out.status != Some(0) {
                return Outcome::fail("exit-status", format!("window {:?} selected {} exit status {:?} stderr={}", w, nsel, out.status, out.stderr_str()));
            }
            if out.stdout != want {
                return Outcome::fail(
                    "selection",
                    format!("codec={} bs={} tmpl={} window={:?} args={:?} selected_expected={} of {} {}", case.codec.kind(), case.bs, case.log.tmpl().name, w, w.args(), nsel, instants.len(), diff_msg(&out.stdout, &want)),
                );
            }
            let cuts = nsel > 0 && nsel < instants.len();
            let on = w.on_instant(&instants);
            if cuts || on {
                nontrivial = true;
            }
            key ^= hash_debug(&w);
            if cuts {
                o_classes.push("window-cuts");
            }
            if on {
                o_classes.push("bound-on-instant");
            }
            if nsel == 0 {
                o_classes.push("empty-selection");
            }
            if w.a == w.b {
                o_classes.push("A=B");
            }
            if w.a.is_none() || w.b.is_none() {
                o_classes.push("one-sided");
            }
        }
        let mut o = Outcome::pass(nontrivial, key).class("kind:text");
        o.evals = evals;
        o_classes.sort();
        o_classes.dedup();
        for c in o_classes {
            o = o.class(c);
        }
        o = o.class(&format!("codec:{}", case.codec.kind()));
        o = o.class(if matches!(case.codec, Codec::Plain) { "search:binary" } else { "search:linear" });
        let has_ties = instants.windows(2).any(|w| w[0] == w[1]);
        if has_ties {
            o = o.class("duplicated-instants");
        }
        o.with_sample(json!({"codec": case.codec.kind(), "bs": case.bs, "messages": instants.len(), "file_bytes": r.bytes.len(),
            "windows": case.wins.iter().map(|w| w.resolve(&instants).args()).collect::<Vec<_>>()}))
    }
}
