//! C01 — merged output is chronological, with a deterministic tie rule.

use crate::bytes::diff_msg;
use crate::dt;
use crate::engine::*;
use crate::s4run::*;
use crate::sources::*;
use crate::textgen::OFFSETS;
use proptest::prelude::*;
use serde::{Deserialize, Serialize};
use serde_json::json;

pub struct C01;

#[derive(Clone, Debug, Serialize, Deserialize)]
pub struct Case {
    /// sources in command-line order
    pub srcs: Vec<Source>,
    /// pass the containing directory instead of the files (walk order = sorted path order = index order)
    pub as_dir: bool,
    pub tz_off: i32,
    pub sep: bool,
}

pub fn tz_arg(off: i32) -> String {
    format!("-t={}", dt::off_colon(off))
}

/// classification helpers over the merged order
pub fn merge_stats(msgs: &[&[Msg]]) -> (usize, usize, usize) {
    let order = o_merge(msgs);
    // cross-source ties: adjacent printed messages from different sources with equal instants
    let mut ties = 0;
    let mut switches = 0;
    for w in order.windows(2) {
        let (a, b) = (w[0], w[1]);
        if a.0 != b.0 {
            switches += 1;
            if msgs[a.0][a.1].t == msgs[b.0][b.1].t {
                ties += 1;
            }
        }
    }
    let live = msgs.iter().filter(|m| !m.is_empty()).count();
    (live, ties, switches)
}

impl Property for C01 {
    type Case = Case;
    fn id(&self) -> &'static str {
        "C01"
    }
    fn rule(&self) -> String {
        "case = 1..6 sources in a generated command-line order (or one walked directory): generated text logs (10 notations incl. differing UTC offsets, plain/gz/bz2/xz/lz4/tar; 20% internally out of order), synthesised accounting-record files (15 layouts), at most one shipped journal/evtx; 0..25 messages each; instants quantised to a coarse grid so cross-source ties are frequent, plus sub-second neighbours. oracle: stdout == O-merge (stable k-way merge by (instant, source position)) of per-source sequences (generator truth for text, single-source s4 run for records/journal/evtx), byte for byte, with a sentinel separator in half the cases. non-trivial = >=2 sources with messages and (>=1 cross-source tie adjacent in the merge or >=2 switches between sources); distinct = hash(case).".into()
    }
    fn assumptions(&self) -> Vec<String> {
        vec![
            "per-source sequences of accounting-record, journal and evtx sources are taken from a single-source run of s4 (their own correctness is C08/C09/C10)".into(),
            "worker-thread interleavings are explored separately in C06 (schedule hooks)".into(),
        ]
    }
    fn cases(&self, tier: Tier) -> u32 {
        tier.pick(400, 8000)
    }
    fn strategy(&self, tier: Tier) -> BoxedStrategy<Case> {
        let maxm = tier.pick(25, 60);
        (prop::sample::select(OFFSETS.to_vec()), prop::bool::weighted(0.2), any::<bool>())
            .prop_flat_map(move |(tz_off, as_dir, sep)| (source_set(6, maxm, true, tz_off), Just(tz_off), Just(as_dir), Just(sep)))
            .prop_map(|(srcs, tz_off, as_dir, sep)| Case { srcs, as_dir, tz_off, sep })
            .boxed()
    }
    fn exec(&self, case: &Case, _ctx: &Ctx) -> Outcome {
        let sc = Scratch::new();
        let dir = sc.subdir("in");
        let tmp = sc.subdir("tmp");
        let tz = tz_arg(case.tz_off);
        let mut mats = vec![];
        for (i, s) in case.srcs.iter().enumerate() {
            if let Source::Text { log, .. } = s {
                let r = log.render();
                if !log.msgs.is_empty() && !crate::textgen::accepted_at(&r, log.header.len(), 65536) {
                    return Outcome::discard("outside block-zero acceptance (F6)");
                }
                if crate::props::c02::contains(&r.bytes, SENTINEL.as_bytes()) {
                    return Outcome::discard("content contains sentinel");
                }
            }
            match materialize(i, s, &dir, &tmp, &tz) {
                Ok(m) => mats.push(m),
                Err(e) => return crate::sources::materialize_failed(e),
            }
        }
        let msgs: Vec<&[Msg]> = mats.iter().map(|m| &m.msgs[..]).collect();
        let want = expected_merged(&msgs, case.sep);
        let mut args = osargs(["--color", "never"]);
        args.push(tz.clone().into());
        if case.sep {
            args.push("--separator".into());
            args.push(SENTINEL.into());
        }
        if case.as_dir {
            args.push(dir.clone().into());
        } else {
            for m in &mats {
                args.push(m.path.clone().into());
            }
        }
        let out = run_s4(RunSpec { args, tmpdir: Some(&tmp), ..Default::default() });
        if out.timed_out {
            return if out.deadlocked { Outcome::fail("deadlock", "s4 stopped making progress".into()) } else { Outcome::inconclusive("timeout".into()) };
        }
        if !out.ok01() || out.panicked() {
            return Outcome::fail("crash", format!("status={:?} signal={:?} stderr={}", out.status, out.signal, out.stderr_str()));
        }
        if out.stdout != want {
            let kinds: Vec<String> = case.srcs.iter().map(|s| s.kind()).collect();
            let mut got_sorted = split_sentinel(&out.stdout);
            let mut want_sorted = split_sentinel(&want);
            let sig = if case.sep {
                got_sorted.sort();
                want_sorted.sort();
                if got_sorted == want_sorted {
                    "order"
                } else {
                    "content"
                }
            } else {
                "differs"
            };
            return Outcome::fail(sig, format!("sources={:?} as_dir={} sep={} counts={:?} {}", kinds, case.as_dir, case.sep, msgs.iter().map(|m| m.len()).collect::<Vec<_>>(), diff_msg(&out.stdout, &want)));
        }
        let (live, ties, switches) = merge_stats(&msgs);
        let nontrivial = live >= 2 && (ties >= 1 || switches >= 2);
        let mut o = Outcome::pass(nontrivial, hash_debug(case));
        if ties > 0 {
            o = o.class("cross-source-ties");
        }
        if ties >= 3 {
            o = o.class("ties>=3");
        }
        if live >= 3 {
            o = o.class("sources>=3");
        }
        if msgs.iter().any(|m| m.is_empty()) {
            o = o.class("source-with-0-messages");
        }
        if case.as_dir {
            o = o.class("walked-directory");
        }
        for s in &case.srcs {
            o = o.class(&format!("kind:{}", s.kind().split('/').next().unwrap()));
        }
        let disordered = msgs.iter().any(|m| m.windows(2).any(|w| w[0].t > w[1].t));
        if disordered {
            o = o.class("internally-disordered-source");
        }
        o.with_sample(json!({"sources": case.srcs.iter().map(|s| s.kind()).collect::<Vec<_>>(), "message_counts": msgs.iter().map(|m| m.len()).collect::<Vec<_>>(),
            "cross_source_ties": ties, "switches": switches, "as_dir": case.as_dir, "tz": tz}))
    }
}
