//! C05 — compression and archiving are transparent.

use crate::bytes::{diff_msg, B};
use crate::containers::*;
use crate::dt;
use crate::engine::*;
use crate::fixedgen::*;
use crate::s4run::*;
use crate::sources::{shipped_bytes, single_run_msgs, SHIPPED};
use crate::textgen::*;
use crate::window::*;
use proptest::prelude::*;
use serde::{Deserialize, Serialize};
use serde_json::json;

pub struct C05;

#[derive(Clone, Debug, Serialize, Deserialize)]
pub enum Content {
    Text(TextLog),
    /// large, poorly compressible text log built deterministically from the parameters
    BigText { seed: u64, lines: u32, body: u16 },
    Fixed(FixedFile),
    Shipped(usize),
    /// arbitrary small content (sizes 0, 1, .. ) under a text name
    Raw(B),
}

#[derive(Clone, Debug, Serialize, Deserialize)]
pub struct Case {
    pub content: Content,
    pub codec: Codec,
    pub bs: u64,
    pub win: Option<WinSpec>,
    /// probe of known finding F22
    #[serde(default)]
    pub allow_f22: bool,
}

fn xorshift(s: &mut u64) -> u64 {
    let mut x = *s;
    x ^= x << 13;
    x ^= x >> 7;
    x ^= x << 17;
    *s = x;
    x
}

pub fn big_text(seed: u64, lines: u32, body: u16) -> (Vec<u8>, Vec<i64>) {
    const ALPHA: &[u8] = b"ABCDEFGHIJKLMNOPQRSTUVWXYZabcdefghijklmnopqrstuvwxyz+/=_-.,:;!?#@$%&*()[]{}<>|~^ ";
    let mut s = seed | 1;
    let mut out = Vec::with_capacity(lines as usize * (body as usize + 40));
    let mut t: i64 = 1_400_000_000_000_000_000;
    let mut instants = vec![];
    for i in 0..lines {
        t += (xorshift(&mut s) % 3_000_000) as i64 * 1000;
        instants.push(t);
        let c = dt::civil(t as i128, 0);
        out.extend_from_slice(dt::strftime(&c, t as i128, "%Y-%m-%dT%H:%M:%S.%6f+00:00").as_bytes());
        out.extend_from_slice(format!(" #{} ", letters(i as usize)).as_bytes());
        let n = body as u64 / 2 + xorshift(&mut s) % (body as u64 + 1);
        for _ in 0..n {
            out.push(ALPHA[(xorshift(&mut s) % ALPHA.len() as u64) as usize]);
        }
        out.push(b'\n');
    }
    (out, instants)
}

impl Property for C05 {
    type Case = Case;
    fn id(&self) -> &'static str {
        "C05"
    }
    fn rule(&self) -> String {
        "case = content (generated text log; large poorly-compressible text log 0.1-1.5 MB; synthesised accounting-record file of any of 15 layouts; shipped journal or evtx; raw tiny files of 0..8 bytes) x container with generated parameters (gz via flate2 level 0-9 with FNAME/FCOMMENT/FEXTRA/mtime; gz with full/sync flush points => many deflate blocks incl. empty stored blocks; bz2 level 1-9; xz preset 0-9 with check none/crc32/crc64 and the lzma-rs encoder; lz4 frames with block size 64K/256K/1M/4M, linked/independent, checksums, content size; tar ustar/gnu with the member at position 0..4 among 0..4 decoy members, long member names) x block size {64..70000, 0x20000, 0x40000, 0x100000, 0xFFFFFF} x optional window placed relative to message instants. oracle (differential): stdout of the container run == stdout of the plain-file run with identical options. non-trivial = content larger than one block and (codec chunking not aligned with the block size, recorded from the parameters, or tar member not first, or window cuts); distinct = hash(case).".into()
    }
    fn assumptions(&self) -> Vec<String> {
        vec![
            "single-stream / single-target-member containers only (project limits: Issues #8, #11, #14)".into(),
            "xz streams with a SHA-256 integrity check are outside the generated domain (known finding F9, probed)".into(),
        ]
    }
    fn cases(&self, tier: Tier) -> u32 {
        tier.pick(500, 8000)
    }
    fn probes(&self, _tier: Tier) -> Vec<(String, Case)> {
        let t0 = 1_577_934_245_123_456_000i64;
        let log = TextLog { tmpl: 0, off: 0, header: vec![], msgs: vec![TMsg { t: t0, body: B::from(" #a x"), cont: vec![] }, TMsg { t: t0 + 1000, body: B::from(" #b y"), cont: vec![] }], final_nl: true };
        // F22: header 39 bytes, first message ends on byte 63, second line fills block 1 exactly
        let f22 = TextLog {
            tmpl: 3,
            off: 0,
            header: vec![B::from("<=pYsQa,.OA"), B::from("abcdefghijklmnopqrstuvwxyz")],
            msgs: vec![
                TMsg { t: 931622400_000_000_000, body: B::from(" #feb aa"), cont: vec![] },
                TMsg { t: 931622400_000_000_000, body: B::from(" #geb 3xkeby!{bv`x$.ZNKaS.wk|^uH@Bp&wub>uwF.!L.]"), cont: vec![] },
                TMsg { t: 931622400_013_558_000, body: B::from(" "), cont: vec![] },
            ],
            final_nl: true,
        };
        vec![
            ("streamed-block-alignment-gz".into(), Case { content: Content::Text(f22), codec: Codec::Gz { level: 6, fname: false, fcomment: false, fextra: false, mtime: 1 }, bs: 64, win: None, allow_f22: true }),
            ("xz-sha256".into(), Case { content: Content::Text(log), codec: Codec::Xz { preset: 6, check: 3 }, bs: 65536, win: None, allow_f22: false }),
            ("gz-big-incompressible-bs0x100000".into(), Case { content: Content::BigText { seed: 7, lines: 6000, body: 120 }, codec: Codec::Gz { level: 6, fname: true, fcomment: false, fextra: false, mtime: 1 }, bs: 0x100000, win: None, allow_f22: false }),
            ("gz-big-incompressible-bs0x20000".into(), Case { content: Content::BigText { seed: 9, lines: 6000, body: 120 }, codec: Codec::Gz { level: 1, fname: false, fcomment: false, fextra: false, mtime: 1 }, bs: 0x20000, win: None, allow_f22: false }),
            ("lz4-big-bs100000".into(), Case { content: Content::BigText { seed: 11, lines: 4000, body: 100 }, codec: Codec::Lz4 { block: 0, linked: true, content_checksum: true, block_checksums: false, content_size: false }, bs: 100000, win: None, allow_f22: false }),
        ]
    }
    fn strategy(&self, tier: Tier) -> BoxedStrategy<Case> {
        let max_msgs = tier.pick(40, 150);
        let nl = layouts().len();
        let bs = prop_oneof![3 => 64u64..400, 3 => 400u64..70000, 1 => Just(0x20000u64), 1 => Just(0x40000u64), 1 => Just(0x100000u64), 1 => Just(0xFFFFFFu64)];
        let maxrec = tier.pick(80, 400);
        (bs, any_codec())
            .prop_flat_map(move |(bs, codec)| {
                let p = TextParams { min_msgs: 0, max_msgs, steer_bs: bs.min(4096) as usize, max_mult: 3, accept_bs: vec![bs], ..TextParams::default() };
                let content = prop_oneof![
                    8 => text_log(p).prop_map(Content::Text),
                    3 => (any::<u64>(), 1500u32..9000, 30u16..160).prop_map(|(seed, lines, body)| Content::BigText { seed, lines, body }),
                    5 => fixed_file(maxrec, (0..nl).collect()).prop_map(Content::Fixed),
                    1 => (0usize..SHIPPED.len()).prop_map(Content::Shipped),
                    1 => prop::collection::vec(any::<u8>(), 0..9).prop_map(|v| Content::Raw(B(v))),
                ];
                (content, Just(codec), Just(bs), win_spec_or_none())
            })
            .prop_map(|(content, codec, bs, win)| Case { content, codec, bs, win, allow_f22: false })
            .boxed()
    }
    fn exec(&self, case: &Case, _ctx: &Ctx) -> Outcome {
        let sc = Scratch::new();
        let tmp = sc.subdir("tmp");
        let (data, name, instants, kind): (Vec<u8>, String, Vec<i64>, &str) = match &case.content {
            Content::Text(log) => {
                let r = log.render();
                if !log.msgs.is_empty() && !accepted_at(&r, log.header.len(), case.bs) {
                    return Outcome::discard("outside block-zero acceptance (F6)");
                }
                (r.bytes, "a.log".into(), log.msgs.iter().map(|m| m.t).collect(), "text")
            }
            Content::BigText { seed, lines, body } => {
                let (b, i) = big_text(*seed, *lines, *body);
                (b, "a.log".into(), i, "bigtext")
            }
            Content::Fixed(f) => (f.render(), format!("a.{}", f.lay().fname), f.expected_order().iter().map(|&i| f.t_ns(i)).collect(), "fixedstruct"),
            Content::Shipped(w) => {
                let (k, d) = match shipped_bytes(*w) {
                    Ok(x) => x,
                    Err(e) => return Outcome::inconclusive(e),
                };
                (d, format!("a.{}", k), vec![], if k == "evtx" { "evtx" } else { "journal" })
            }
            Content::Raw(b) => (b.0.clone(), "a.log".into(), vec![], "raw"),
        };
        let tz = match &case.content {
            Content::Text(log) => log.tz_arg(),
            _ => "-t=+00:00".to_string(),
        };
        // F22 (fixed eeda0b10): formerly excluded; still classified so that a return is reported under its own signature
        let hazard = case.codec.is_streamed() && matches!(case.content, Content::Text(_) | Content::BigText { .. }) && streamed_alignment_hazard(&data, case.bs);
        let plain_dir = sc.subdir("plain");
        let plain = plain_dir.join(&name);
        std::fs::write(&plain, &data).unwrap();
        let cont_dir = sc.subdir("cont");
        let cont = match wrap(&case.codec, &data, &cont_dir, &name, &name) {
            Ok(f) => f,
            Err(e) => return Outcome::inconclusive(e),
        };
        // window: relative to the instants of the content
        let instants = if instants.is_empty() && case.win.is_some() && matches!(case.content, Content::Shipped(_)) {
            match single_run_msgs(&plain, &tmp, &tz) {
                Ok(m) => m.iter().map(|m| m.t).collect(),
                Err(e) => return Outcome::inconclusive(e),
            }
        } else {
            instants
        };
        let w = case.win.as_ref().map(|w| w.resolve(&instants)).unwrap_or(Window::none());
        let run = |p: &std::path::Path| {
            let mut args = osargs(["--color", "never", "--blocksz"]);
            args.push(case.bs.to_string().into());
            args.push(tz.clone().into());
            for a in w.args() {
                args.push(a.into());
            }
            args.push(p.into());
            run_s4(RunSpec { args, tmpdir: Some(&tmp), ..Default::default() })
        };
        let a = run(&plain);
        let b = run(&cont);
        for (o, what) in [(&a, "plain"), (&b, "container")] {
            if o.timed_out {
                return Outcome::inconclusive(format!("{} run timed out", what));
            }
            if !o.ok01() || o.panicked() {
                return Outcome::fail("crash", format!("{} run: status={:?} signal={:?} stderr={}", what, o.status, o.signal, o.stderr_str()));
            }
        }
        if a.stdout != b.stdout {
            let sig = if matches!(case.codec, Codec::Xz { check: 3, .. }) {
                "xz-sha256"
            } else if hazard {
                "streamed-block-alignment"
            } else {
                "differs"
            };
            return Outcome::fail(
                sig,
                format!("content={} codec={:?} bs={} window={:?} container_status={:?} plain_status={:?} container_stderr={:?} {}", kind, case.codec, case.bs, w.args(), b.status, a.status, crate::bytes::esc_trunc(&b.stderr, 300), diff_msg(&b.stdout, &a.stdout)),
            );
        }
        let multi_block = data.len() as u64 > case.bs;
        let misaligned = match &case.codec {
            Codec::GzFlush { points, .. } => !points.is_empty(),
            Codec::Lz4 { block, .. } => {
                let lzb = [65536u64, 262144, 1 << 20, 4 << 20][*block as usize % 4];
                lzb % case.bs != 0
            }
            Codec::Tar { pos, decoys, .. } => (*pos as usize % (*decoys as usize + 1)) > 0,
            Codec::Gz { .. } => case.bs % 2056 != 0,
            _ => true,
        };
        let nsel = instants.iter().filter(|&&t| w.contains(t)).count();
        let cuts = case.win.is_some() && nsel > 0 && nsel < instants.len();
        let nontrivial = !a.stdout.is_empty() && multi_block && (misaligned || cuts);
        let mut o = Outcome::pass(nontrivial, hash_debug(case));
        o.evals = 2;
        o = o.class(&format!("content:{}", kind)).class(&format!("codec:{}", case.codec.kind()));
        if multi_block {
            o = o.class("multi-block");
        }
        if data.len() > 65536 {
            o = o.class("content>64KiB");
        }
        if misaligned && multi_block {
            o = o.class("chunking-misaligned");
        }
        if cuts {
            o = o.class("window-cuts");
        }
        if a.status != b.status {
            o = o.class("exit-status-differs(not-a-failure)");
        }
        if a.stdout.is_empty() {
            o = o.class("empty-output");
        }
        if !data.is_empty() && data.len() as u64 % case.bs == 0 {
            o = o.class("size=k*bs");
        }
        o.with_sample(json!({"content": kind, "bytes": data.len(), "codec": format!("{:?}", case.codec), "bs": case.bs, "window": w.args(), "stdout_bytes": a.stdout.len()}))
    }
}
