//! C12 — the read block size never changes what is printed.

use crate::bytes::{diff_msg, esc_trunc, B};
use crate::containers::*;
use crate::engine::*;
use crate::props::c03::expected_text;
use crate::s4run::*;
use crate::textgen::*;
use crate::window::*;
use proptest::prelude::*;
use serde::{Deserialize, Serialize};
use serde_json::json;

pub struct C12;

#[derive(Clone, Debug, Serialize, Deserialize)]
pub enum Case {
    /// end to end through the binary: stdout at every block size == stdout at 65536 (and == the model)
    E2E { log: TextLog, codec: Codec, bss: Vec<u64>, win: Option<WinSpec>, prepend: bool },
    /// in-process LineReader: lines found at block size `bs` tile the file and equal split-on-newline
    Lines { content: B, bs: u64, probes: Vec<u16> },
    /// accounting-record file through the binary: stdout at every block size == stdout at 65536
    Records { file: crate::fixedgen::FixedFile, codec: Codec, bss: Vec<u64> },
}

pub const REF_BS: u64 = 65536;
const BS_POOL: &[u64] = &[64, 65, 66, 100, 127, 128, 129, 255, 256, 1000, 4095, 4096, 4097, 8095, 8096, 8097, 0xFFFF, 0x10001, 0xFFFFFF];

/// reference: split on newline keeping the newline; final unterminated line kept
pub fn split_lines(c: &[u8]) -> Vec<(usize, usize)> {
    let mut v = vec![];
    let mut s = 0;
    for (i, &b) in c.iter().enumerate() {
        if b == b'\n' {
            v.push((s, i + 1));
            s = i + 1;
        }
    }
    if s < c.len() {
        v.push((s, c.len()));
    }
    v
}

pub fn line_bytes(l: &s4lib::data::line::Line) -> Vec<u8> {
    l.verif_bytes()
}

/// in-process check of LineReader at one block size
pub fn lines_check(content: &[u8], bs: u64, probes: &[u16], sc: &Scratch) -> Result<(), String> {
    use s4lib::common::{FileType, FileTypeArchive, FileTypeTextEncoding, ResultS3};
    use s4lib::readers::linereader::LineReader;
    let p = sc.write("lines.log", content);
    let ft = FileType::Text { archival_type: FileTypeArchive::Normal, encoding_type: FileTypeTextEncoding::Utf8Ascii };
    let path = p.to_string_lossy().to_string();
    let reference = split_lines(content);
    // sequential pass
    let mut lr = LineReader::new(path.clone(), ft, bs).map_err(|e| format!("LineReader::new: {}", e))?;
    let mut fo: u64 = 0;
    let mut i = 0usize;
    loop {
        match lr.find_line(fo) {
            ResultS3::Found((fo_next, linep)) => {
                if i >= reference.len() {
                    return Err(format!("bs={} sequential: extra line #{} at fo={} bytes={:?}", bs, i, fo, esc_trunc(&line_bytes(&linep), 80)));
                }
                let (a, b) = reference[i];
                let got = line_bytes(&linep);
                if got != content[a..b] || linep.fileoffset_begin() != a as u64 || linep.fileoffset_end() != (b - 1) as u64 || fo_next != b as u64 {
                    return Err(format!(
                        "bs={} sequential line #{}: got [{}..={}] next={} {:?}; want [{}..{}) {:?}",
                        bs,
                        i,
                        linep.fileoffset_begin(),
                        linep.fileoffset_end(),
                        fo_next,
                        esc_trunc(&got, 80),
                        a,
                        b,
                        esc_trunc(&content[a..b], 80)
                    ));
                }
                fo = fo_next;
                i += 1;
            }
            ResultS3::Done => break,
            ResultS3::Err(e) => return Err(format!("bs={} sequential find_line({}) error {}", bs, fo, e)),
        }
        if i > reference.len() + 2 {
            return Err("runaway".into());
        }
    }
    if i != reference.len() {
        return Err(format!("bs={} sequential: found {} lines, want {}", bs, i, reference.len()));
    }
    // random access on a fresh reader and on the warmed reader (cache history)
    for warmed in [false, true] {
        let mut lr2 = if warmed { None } else { Some(LineReader::new(path.clone(), ft, bs).map_err(|e| format!("LineReader::new: {}", e))?) };
        for &pr in probes {
            let fo = if content.is_empty() { 0 } else { (pr as u64 * (content.len() as u64 + 1)) >> 16 };
            let r = match lr2.as_mut() {
                Some(l) => l.find_line(fo),
                None => lr.find_line(fo),
            };
            let want = reference.iter().find(|(a, b)| (*a as u64) <= fo && fo < *b as u64);
            match (r, want) {
                (ResultS3::Found((fo_next, linep)), Some(&(a, b))) => {
                    let got = line_bytes(&linep);
                    if got != content[a..b] || fo_next != b as u64 {
                        return Err(format!("bs={} random find_line({}) warmed={}: got [{}..] next={} {:?}; want [{}..{})", bs, fo, warmed, linep.fileoffset_begin(), fo_next, esc_trunc(&got, 80), a, b));
                    }
                }
                (ResultS3::Done, None) => {}
                (ResultS3::Found((_, linep)), None) => return Err(format!("bs={} random find_line({}) at/after EOF returned a line at {}", bs, fo, linep.fileoffset_begin())),
                (ResultS3::Done, Some(&(a, b))) => return Err(format!("bs={} random find_line({}) warmed={} returned Done; want [{}..{})", bs, fo, warmed, a, b)),
                (ResultS3::Err(e), _) => return Err(format!("bs={} random find_line({}) error {}", bs, fo, e)),
            }
        }
    }
    Ok(())
}

fn boundary_hit(r: &Rendered, bs: u64) -> bool {
    // a message starts or ends at k*bs-1, k*bs, k*bs+1, or a line straddles a boundary
    if (r.bytes.len() as u64) <= bs {
        return false;
    }
    for &(a, b) in &r.spans {
        for x in [a as u64, b as u64] {
            let m = x % bs;
            if m <= 1 || m == bs - 1 {
                return true;
            }
        }
    }
    crate::props::c02::line_crosses(&r.bytes, bs)
}

impl Property for C12 {
    type Case = Case;
    fn id(&self) -> &'static str {
        "C12"
    }
    fn rule(&self) -> String {
        "three generated case kinds. Records: a synthesised accounting-record file of any of the 15 layouts (plain or in a container) printed at 65536 and at 2..4 block sizes in 64..5000 that are no multiple of the record size, all outputs identical. E2E: generated text log (one ISO 8601 log in eight ends in a bare timestamp without newline whose last byte alone lies in the next block at an added block size; plain or in a generated gz/bz2/xz/lz4/tar container), optional window, optional -u -d prefix, run at 65536 and at 4 sizes from {64,65,66,100,127,128,129,255,256,1000,4095..4097,8095..8097,0xFFFF,0x10001,0xFFFFFF,generated}: every stdout must equal the 65536 stdout and the model output. Lines (in-process LineReader, block sizes 1..len+2): sequential find_line results must tile the file and equal split-on-newline, random-access find_line(fo) on fresh and warmed readers must return the line containing fo; contents over {\\n,a,1,\\r,0x80} exhaustively enumerated up to length 7 in the extra phase. non-trivial: E2E = file larger than one block at some size and a message/line starts, ends or straddles a block boundary (+-1) there; Lines = >=2 lines and content longer than the block; distinct = hash(content, sizes).".into()
    }
    fn assumptions(&self) -> Vec<String> {
        vec!["files must pass the block-zero acceptance heuristic at every size used (finding F6 excluded by construction; probed as known finding)".into()]
    }
    fn cases(&self, tier: Tier) -> u32 {
        tier.pick(500, 10000)
    }
    fn inprocess(&self) -> bool {
        true
    }
    fn strategy(&self, tier: Tier) -> BoxedStrategy<Case> {
        let max_msgs = tier.pick(30, 100);
        let e2e = (prop::sample::subsequence(BS_POOL.to_vec(), 3), 67u64..9000, any_codec_or_plain(), any::<bool>())
            .prop_flat_map(move |(mut bss, gen_bs, codec, prepend)| {
                bss.push(gen_bs);
                let steer = prop::sample::select(bss.iter().map(|b| (*b).min(9000) as usize).collect::<Vec<_>>());
                (Just(bss), steer, Just(codec), Just(prepend))
            })
            .prop_flat_map(move |(bss, steer, codec, prepend)| {
                let mut all = bss.clone();
                all.push(REF_BS);
                let p = TextParams { min_msgs: 0, max_msgs, steer_bs: steer, max_mult: 3, accept_bs: all, ..TextParams::default() };
                (text_log(p), Just(bss), Just(codec), win_spec_or_none(), Just(prepend))
            })
            .prop_flat_map(|(log, bss, codec, win, prepend)| (Just(log), Just(bss), Just(codec), Just(win), Just(prepend), prop::option::weighted(0.12, any::<u16>())))
            .prop_map(|(mut log, mut bss, codec, win, prepend, tail)| {
                // tail steering: the file ends in a bare timestamp without newline and one block size puts exactly its
                // last byte into the next block (file size = k * bs + 1)
                // (only with two full messages before it: a file that is nothing but a bare timestamp is outside the
                // generated domain, the block-zero analysis need not accept it)
                // and only for the ISO 8601 notation: e.g. the epoch notation needs a delimiter after the fraction, a bare
                // epoch line is a continuation line by the program's own grammar
                let enough = log.msgs.len() >= 3 && log.tmpl == 0;
                if let (Some(pick), Some(last), true) = (tail, log.msgs.last_mut(), enough) {
                    last.body = B(vec![]);
                    last.cont.clear();
                    log.final_nl = false;
                    let n = log.render().bytes.len() as u64;
                    if n > 65 {
                        let divs: Vec<u64> = (64..=(n - 1)).filter(|d| (n - 1) % d == 0).collect();
                        if !divs.is_empty() {
                            bss.push(divs[(pick as usize * divs.len()) >> 16]);
                        }
                    }
                }
                Case::E2E { log, codec, bss, win, prepend }
            });
        let alphabet = prop_oneof![4 => Just(b'\n'), 4 => Just(b'a'), 2 => Just(b'1'), 1 => Just(b'\r'), 1 => Just(0x80u8), 1 => Just(0u8)];
        let lines = (prop::collection::vec(alphabet, 0..200), prop::collection::vec(any::<u16>(), 0..12), any::<u16>()).prop_map(|(c, probes, b)| {
            let bs = 1 + ((b as u64 * (c.len() as u64 + 2)) >> 16);
            Case::Lines { content: B(c), bs, probes }
        });
        // record sizes are 32..640 bytes: block sizes that are no multiple of them make records and their time values
        // straddle block boundaries
        let records = (crate::fixedgen::fixed_file(tier.pick(40, 150), (0..crate::fixedgen::layouts().len()).collect()), any_codec_or_plain(), prop::collection::vec(prop_oneof![3 => 64u64..700, 1 => 700u64..5000], 2..5))
            .prop_map(|(file, codec, bss)| Case::Records { file, codec, bss });
        prop_oneof![3 => e2e, 2 => lines, 1 => records].boxed()
    }
    fn probes(&self, _tier: Tier) -> Vec<(String, Case)> {
        vec![
            ("lines-empty".into(), Case::Lines { content: B(vec![]), bs: 1, probes: vec![0, 1] }),
            ("lines-one-nl".into(), Case::Lines { content: B(b"\n".to_vec()), bs: 1, probes: vec![0, 65535] }),
            ("lines-no-final-nl".into(), Case::Lines { content: B(b"a\nb".to_vec()), bs: 2, probes: vec![0, 30000, 65535] }),
        ]
    }
    fn extra(&self, _ctx: &Ctx, st: &mut Stats) {
        // exhaustive enumeration of small contents at every block size 1..=len+1
        let sc = Scratch::new();
        let alpha = [b'\n', b'a', b'1'];
        let maxlen = 7usize;
        let mut n = 0u64;
        let mut nt = 0u64;
        for len in 0..=maxlen {
            let total = 3usize.pow(len as u32);
            for code in 0..total {
                let mut c = Vec::with_capacity(len);
                let mut x = code;
                for _ in 0..len {
                    c.push(alpha[x % 3]);
                    x /= 3;
                }
                for bs in 1..=(len as u64 + 1) {
                    n += 1;
                    let probes: Vec<u16> = (0..=len).map(|i| ((i as u32 * 65536) / (len as u32 + 1)) as u16).collect();
                    let r = std::panic::catch_unwind(std::panic::AssertUnwindSafe(|| lines_check(&c, bs, &probes, &sc)));
                    let r = match r {
                        Ok(r) => r,
                        Err(_) => Err("panic in LineReader".to_string()),
                    };
                    if let Err(e) = r {
                        let case = Case::Lines { content: B(c.clone()), bs, probes };
                        let msg = format!("exhaustive: content={:?} {}", esc_trunc(&c, 40), e);
                        eprintln!("[C12] {}", msg);
                        let dir = verif_root().join("replays");
                        let _ = std::fs::create_dir_all(&dir);
                        let p = dir.join(format!("C12-exh-{:016x}.json", fnv(msg.as_bytes())));
                        let _ = std::fs::write(&p, serde_json::to_string_pretty(&json!({"property":"C12","case":case,"msg":msg})).unwrap());
                        st.violations.push(("lines".into(), msg, p));
                        return;
                    }
                    if c.iter().filter(|&&b| b == b'\n').count() >= 1 && c.len() as u64 > bs {
                        nt += 1;
                        st.nontrivial_keys.insert(fnv(&c) ^ bs.wrapping_mul(0x9e3779b97f4a7c15));
                    }
                }
            }
        }
        st.evaluations += n;
        st.extra.insert("exhaustive_linereader".into(), json!({"alphabet": "\\n a 1", "max_len": maxlen, "block_sizes": "1..=len+1", "evaluations": n, "nontrivial": nt, "exhaustive": true}));
    }
    fn exec(&self, case: &Case, _ctx: &Ctx) -> Outcome {
        match case {
            Case::Records { file, codec, bss } => {
                let l = file.lay();
                let sc = Scratch::new();
                let f = match wrap(codec, &file.render(), &sc.dir, l.fname, l.fname) {
                    Ok(f) => f,
                    Err(e) => return Outcome::inconclusive(e),
                };
                let run = |bs: u64| {
                    let mut args = osargs(["--color", "never", "-t=+00:00", "--blocksz"]);
                    args.push(bs.to_string().into());
                    args.push(f.clone().into());
                    run_s4(RunSpec { args, tmpdir: Some(&sc.dir), ..Default::default() })
                };
                let reference = run(REF_BS);
                if reference.timed_out {
                    return Outcome::inconclusive("timeout".into());
                }
                if !reference.ok01() || reference.panicked() {
                    return Outcome::fail("crash", format!("records bs={} status={:?} signal={:?} stderr={}", REF_BS, reference.status, reference.signal, esc_trunc(&reference.stderr, 400)));
                }
                for &bs in bss {
                    let o = run(bs);
                    if o.timed_out {
                        return Outcome::inconclusive("timeout".into());
                    }
                    if !o.ok01() || o.panicked() {
                        return Outcome::fail("crash", format!("records bs={} status={:?} signal={:?} stderr={}", bs, o.status, o.signal, esc_trunc(&o.stderr, 400)));
                    }
                    if o.stdout != reference.stdout || o.status != reference.status {
                        return Outcome::fail("differs", format!("records layout={} codec={} bs={} (status {:?}) vs {} (status {:?}): {}", l.id, codec.kind(), bs, o.status, REF_BS, reference.status, diff_msg(&o.stdout, &reference.stdout)));
                    }
                }
                let straddles = bss.iter().any(|&bs| (0..file.recs.len() as u64).any(|k| (k * l.size as u64) / bs != ((k + 1) * l.size as u64 - 1) / bs));
                let mut o = Outcome::pass(straddles && !reference.stdout.is_empty(), hash_debug(case));
                o.evals = 1 + bss.len() as u64;
                o.class("kind:records").class(&format!("codec:{}", codec.kind()))
            }
            Case::Lines { content, bs, probes } => {
                let sc = Scratch::new();
                let r = std::panic::catch_unwind(std::panic::AssertUnwindSafe(|| lines_check(&content.0, *bs, probes, &sc)));
                let r = match r {
                    Ok(r) => r,
                    Err(_) => Err("panic in LineReader".to_string()),
                };
                if let Err(e) = r {
                    return Outcome::fail("lines", format!("content={:?} {}", esc_trunc(&content.0, 120), e));
                }
                let nl = split_lines(&content.0).len();
                let nontrivial = nl >= 2 && content.len() as u64 > *bs;
                let mut o = Outcome::pass(nontrivial, fnv(&content.0) ^ bs.wrapping_mul(0x9e3779b97f4a7c15)).class("kind:lines");
                if *bs == 1 {
                    o = o.class("lines:bs=1");
                }
                if !content.is_empty() && content.len() as u64 % bs == 0 {
                    o = o.class("lines:size-multiple-of-block");
                }
                o.with_sample(json!({"kind":"Lines","content": esc_trunc(&content.0, 80), "bs": bs, "lines": nl}))
            }
            Case::E2E { log, codec, bss, win, prepend } => {
                let r = log.render();
                let mut all = bss.clone();
                all.push(REF_BS);
                if !log.msgs.is_empty() {
                    for &bs in &all {
                        if !accepted_at(&r, log.header.len(), bs) {
                            return Outcome::discard("outside block-zero acceptance (F6)");
                        }
                    }
                }
                let sc = Scratch::new();
                let f = match wrap(codec, &r.bytes, &sc.dir, "a.log", "a.log") {
                    Ok(f) => f,
                    Err(e) => return Outcome::inconclusive(e),
                };
                let instants: Vec<i64> = log.msgs.iter().map(|m| m.t).collect();
                let w = win.as_ref().map(|w| w.resolve(&instants)).unwrap_or(Window::none());
                // text logs must be chronological for the window oracle; the generator makes them so
                let (model, _nsel) = expected_text(&r, log, &w);
                let run = |bs: u64| {
                    let mut args = osargs(["--color", "never", "--blocksz"]);
                    args.push(bs.to_string().into());
                    args.push(log.tz_arg().into());
                    if *prepend {
                        args.push("-u".into());
                        args.push("-d".into());
                        args.push("%s.%9f|".into());
                    }
                    for a in w.args() {
                        args.push(a.into());
                    }
                    args.push(f.clone().into());
                    run_s4(RunSpec { args, tmpdir: Some(&sc.dir), ..Default::default() })
                };
                let reference = run(REF_BS);
                if reference.timed_out {
                    return Outcome::inconclusive("timeout".into());
                }
                if !reference.ok01() || reference.panicked() {
                    return Outcome::fail("crash", format!("bs={} status={:?} signal={:?} stderr={}", REF_BS, reference.status, reference.signal, reference.stderr_str()));
                }
                if !*prepend && reference.stdout != model {
                    return Outcome::fail("model", format!("bs={} codec={} window={:?} {}", REF_BS, codec.kind(), w.args(), diff_msg(&reference.stdout, &model)));
                }
                let mut evals = 1;
                for &bs in bss {
                    let out = run(bs);
                    evals += 1;
                    if out.timed_out {
                        return Outcome::inconclusive("timeout".into());
                    }
                    if !out.ok01() || out.panicked() {
                        return Outcome::fail("crash", format!("bs={} status={:?} signal={:?} stderr={}", bs, out.status, out.signal, out.stderr_str()));
                    }
                    if out.stdout != reference.stdout || out.status != reference.status {
                        let sig = if out.stdout.is_empty() { "empty-output" } else { "differs" };
                        return Outcome::fail(
                            sig,
                            format!("codec={} tmpl={} window={:?} prepend={} bs={} vs {}: status {:?} vs {:?} {}", codec.kind(), log.tmpl().name, w.args(), prepend, bs, REF_BS, out.status, reference.status, diff_msg(&out.stdout, &reference.stdout)),
                        );
                    }
                }
                let hit = bss.iter().any(|&bs| boundary_hit(&r, bs));
                let mut o = Outcome::pass(hit, fnv(&r.bytes) ^ hash_debug(&(bss, codec, &w, prepend))).class("kind:e2e");
                o.evals = evals;
                if hit {
                    o = o.class("boundary-hit");
                }
                if bss.contains(&0xFFFFFF) {
                    o = o.class("bs=0xFFFFFF");
                }
                if bss.iter().any(|&bs| !r.bytes.is_empty() && r.bytes.len() as u64 % bs == 0) {
                    o = o.class("size=k*bs");
                }
                if bss.iter().any(|&bs| r.bytes.len() as u64 % bs == 1 || (r.bytes.len() as u64 + 1) % bs == 0) {
                    o = o.class("size=k*bs+-1");
                }
                if win.is_some() {
                    o = o.class("with-window");
                }
                o = o.class(&format!("codec:{}", codec.kind()));
                o.with_sample(json!({"kind":"E2E","codec": codec.kind(), "block_sizes": bss, "file_bytes": r.bytes.len(), "messages": log.msgs.len(), "window": w.args(), "prepend": prepend}))
            }
        }
    }
}
