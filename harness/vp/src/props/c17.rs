//! C17 — memory held for a streamed text log does not grow with its size.

use crate::containers::*;
use crate::dt;
use crate::engine::*;
use crate::s4run::*;
use proptest::prelude::*;
use serde::{Deserialize, Serialize};
use serde_json::json;

pub struct C17;

#[derive(Clone, Debug, Serialize, Deserialize)]
pub struct Case {
    /// one unit: per message (head body length, continuation line lengths)
    pub unit: Vec<(u16, Vec<u16>)>,
    pub bs: u64,
    /// 0 plain, 1 gz, 2 bz2, 3 lz4
    pub cont: u8,
    /// repetitions of the unit in the three files
    pub reps: Vec<u16>,
    /// put newlines on the last byte of blocks on purpose (finding F8 probe)
    pub align_newlines: bool,
    /// -a placed at this fraction of the largest file (plain files: binary search first)
    pub after_frac: Option<u16>,
}

pub struct Built {
    pub bytes: Vec<u8>,
    pub instants: Vec<i64>,
    pub max_msg: usize,
    pub padded: usize,
}

pub fn build(unit: &[(u16, Vec<u16>)], reps: usize, bs: u64, align: bool) -> Built {
    let mut out: Vec<u8> = Vec::new();
    let mut instants = vec![];
    let mut t: i64 = 1_500_000_000;
    let mut max_msg = 0;
    let mut padded = 0;
    let mut n = 0usize;
    for _ in 0..reps {
        for (hl, conts) in unit {
            let start = out.len();
            t += 1;
            instants.push(t * 1_000_000_000);
            let c = dt::civil(t as i128 * 1_000_000_000, 0);
            out.extend_from_slice(dt::strftime(&c, t as i128 * 1_000_000_000, "%Y-%m-%dT%H:%M:%S.%6f+00:00").as_bytes());
            out.extend_from_slice(format!(" #{} ", crate::textgen::letters(n)).as_bytes());
            n += 1;
            let mut push_line = |out: &mut Vec<u8>, len: usize| {
                for i in 0..len {
                    out.push(b'a' + (i % 23) as u8);
                }
                // position of the newline about to be written
                let pos = out.len() as u64;
                let on_last = pos % bs == bs - 1;
                if align {
                    // extend so that the newline lands on the last byte of a block
                    let need = (bs - 1 - pos % bs) % bs;
                    if need < 40 {
                        for _ in 0..need {
                            out.push(b'p');
                        }
                    }
                } else if on_last {
                    // counted only: since fix c8987618 (F8) such blocks must be released like any other
                    padded += 1;
                }
                out.push(b'\n');
            };
            push_line(&mut out, *hl as usize);
            for cl in conts {
                push_line(&mut out, *cl as usize);
            }
            max_msg = max_msg.max(out.len() - start);
        }
    }
    Built { bytes: out, instants, max_msg, padded }
}

#[derive(Debug, Clone, Copy)]
pub struct Hw {
    pub blocks_high: u64,
    pub lines_high: u64,
    pub syslines_high: u64,
    pub blocks: u64,
}

pub fn parse_hw(stderr: &str) -> Option<Hw> {
    let num = |label: &str| -> Option<u64> {
        for l in stderr.lines() {
            let t = l.trim_start();
            if let Some(rest) = t.strip_prefix(label) {
                let rest = rest.trim_start();
                if let Some(v) = rest.strip_prefix(':') {
                    return v.trim().split_whitespace().next()?.parse().ok();
                }
            }
        }
        None
    };
    Some(Hw { blocks_high: num("blocks high")?, lines_high: num("lines high")?, syslines_high: num("syslines high")?, blocks: num("blocks total").or_else(|| num("blocks"))? })
}

impl Property for C17 {
    type Case = Case;
    fn id(&self) -> &'static str {
        "C17"
    }
    fn rule(&self) -> String {
        "case = a generated unit of 8..40 messages (two thirds of the units keep every line under a quarter block, one third has head and continuation lines of up to 3 blocks; messages span several blocks either way; one case in ten forces newlines onto the last byte of blocks) repeated k1 < k2 < k3 times with advancing timestamps (k3 up to 128 quick / 512 thorough, x4 at 64 KiB) x block size 256..4096|65536 (at 65536 half of the units are tiny one-line messages, > 1024 messages per block, repeated 8192 times) x container plain/gz/bz2/lz4, printed from start to end with --summary. oracle (metamorphic + absolute): the per-file high-water marks `blocks high`, `lines high`, `syslines high` of the largest file must not exceed those of the middle file by more than a constant (2 blocks / the lines+messages of 2 blocks, plus what 8 messages in flight between the file thread and the printing thread can hold) and must stay under a bound computed from the generated parameters only (9 x ceil(max message/bs) + 8 blocks), never from the file size; with -a in the middle of a plain file the bound gains (2*log2(blocks)+8) x (blocks per message + 1). No growth is tolerated since the fixes 5189d6da/c8987618 (formerly known findings F8, F19, F20). non-trivial = largest file >= 300 blocks and >= 3x the middle file; distinct = hash(case).".into()
    }
    fn assumptions(&self) -> Vec<String> {
        vec!["high-water marks are those reported by --summary".into(), "constants calibrated on the unchanged tree with margin (see DESIGN.md C17)".into()]
    }
    fn cases(&self, tier: Tier) -> u32 {
        tier.pick(160, 2500)
    }
    fn probes(&self, _tier: Tier) -> Vec<(String, Case)> {
        vec![
            ("aligned-newlines-plain".into(), Case { unit: vec![(20, vec![]), (35, vec![10]), (50, vec![])], bs: 256, cont: 0, reps: vec![8, 64, 512], align_newlines: true, after_frac: None }),
            ("lines-longer-than-block-plain".into(), Case { unit: vec![(20, vec![]), (400, vec![]), (700, vec![300]), (10, vec![]), (500, vec![]), (600, vec![])], bs: 256, cont: 0, reps: vec![8, 32, 128], align_newlines: false, after_frac: None }),
            ("lines-longer-than-block-gz".into(), Case { unit: vec![(20, vec![]), (400, vec![]), (700, vec![300]), (10, vec![]), (500, vec![]), (600, vec![])], bs: 256, cont: 1, reps: vec![8, 32, 128], align_newlines: false, after_frac: None }),
        ]
    }
    fn strategy(&self, tier: Tier) -> BoxedStrategy<Case> {
        let kmax = tier.pick(128u16, 512);
        let bs = prop_oneof![3 => 256u64..600, 2 => 600u64..4096, 1 => Just(65536u64)];
        bs.prop_flat_map(move |bs| {
            // most units keep every line below a quarter of the block; a third have lines of up to 3 blocks
            // (formerly excluded as finding F19); messages span several blocks through continuation lines either way
            let q = (bs / 4).min(400) as u16;
            let long = if bs >= 65536 { q } else { (3 * bs).min(3000) as u16 };
            let head = prop_oneof![9 => 0u16..q.saturating_sub(46).max(1), 1 => 0u16..long.max(1)];
            let cont = prop_oneof![9 => 0u16..q.max(1), 1 => 0u16..long.max(1)];
            let shortmsg = (0u16..q.saturating_sub(46).max(1), prop_oneof![3 => prop::collection::vec(0u16..q.max(1), 0..3), 1 => prop::collection::vec(0u16..q.max(1), 3..14)]);
            let anymsg = (head, prop_oneof![3 => prop::collection::vec(cont.clone(), 0..3), 1 => prop::collection::vec(cont, 3..14)]);
            let unit = prop_oneof![2 => prop::collection::vec(shortmsg, 8..40), 1 => prop::collection::vec(anymsg, 8..40)];
            // at the default block size half of the units consist of tiny one-line messages: more than a thousand
            // messages per block, in files of well over a hundred blocks' worth of messages
            let tiny = prop::collection::vec((0u16..12, Just(Vec::<u16>::new())), 20..40);
            let unit = if bs >= 65536 { prop_oneof![1 => unit, 1 => tiny].boxed() } else { unit.boxed() };
            (unit, Just(bs), 0u8..4, prop::option::weighted(0.25, any::<u16>()), prop::bool::weighted(0.1))
        })
        .prop_map(move |(unit, bs, cont, after_frac, align)| {
            let tiny = bs >= 65536 && unit.iter().all(|(h, c)| *h < 12 && c.is_empty());
            let k3 = if tiny { 8192 } else if bs >= 65536 { kmax.max(64) * 4 } else { kmax };
            Case { unit, bs, cont, reps: vec![(k3 / 16).max(1), (k3 / 4).max(2), k3], align_newlines: align, after_frac: if cont == 0 { after_frac } else { None } }
        })
        .boxed()
    }
    fn exec(&self, case: &Case, _ctx: &Ctx) -> Outcome {
        let sc = Scratch::new();
        let codec = match case.cont % 4 {
            0 => Codec::Plain,
            1 => Codec::Gz { level: 1, fname: false, fcomment: false, fextra: false, mtime: 1 },
            2 => Codec::Bz2 { level: 1 },
            _ => Codec::Lz4 { block: 0, linked: false, content_checksum: false, block_checksums: false, content_size: false },
        };
        let mut hws: Vec<(usize, u64, Hw, usize)> = vec![];
        let mut padded_total = 0;
        let mut max_msg = 0;
        for (ri, &k) in case.reps.iter().enumerate() {
            let b = build(&case.unit, k as usize, case.bs, case.align_newlines);
            padded_total += b.padded;
            max_msg = max_msg.max(b.max_msg);
            // block-zero acceptance: the generated first lines are short enough unless the unit starts with a very long line
            let first_nl = b.bytes.iter().position(|&c| c == b'\n').unwrap_or(0) as u64;
            if first_nl + 1 > case.bs {
                return Outcome::discard("outside block-zero acceptance (F6)");
            }
            if case.bs >= 8096 {
                let b0 = (b.bytes.len() as u64).min(case.bs) as usize;
                if b.bytes[..b0].iter().filter(|&&c| c == b'\n').count() < 6 {
                    return Outcome::discard("outside block-zero acceptance (F6)");
                }
            }
            let f = match wrap(&codec, &b.bytes, &sc.dir, &format!("r{}.log", ri), "r.log") {
                Ok(f) => f,
                Err(e) => return Outcome::inconclusive(e),
            };
            let mut args = osargs(["--color", "never", "-t=+00:00", "--summary", "--blocksz"]);
            args.push(case.bs.to_string().into());
            if let (Some(fr), true) = (case.after_frac, ri == case.reps.len() - 1) {
                let idx = (fr as usize * b.instants.len()) >> 16;
                args.push("-a".into());
                args.push(crate::window::bound_arg(b.instants[idx.min(b.instants.len() - 1)]).into());
            }
            args.push(f.into());
            let out = run_s4(RunSpec { args, tmpdir: Some(&sc.dir), timeout: std::time::Duration::from_secs(180), ..Default::default() });
            if out.timed_out {
                return Outcome::inconclusive("timeout".into());
            }
            if !out.ok01() || out.panicked() {
                return Outcome::fail("crash", format!("status={:?} signal={:?} stderr={}", out.status, out.signal, crate::bytes::esc_trunc(&out.stderr, 500)));
            }
            if out.stdout.is_empty() {
                return Outcome::discard("nothing printed");
            }
            let hw = match parse_hw(&out.stderr_str()) {
                Some(h) => h,
                None => return Outcome::fail("no-summary", format!("cannot find high-water marks in summary: {}", crate::bytes::esc_trunc(&out.stderr, 600))),
            };
            hws.push((k as usize, b.bytes.len() as u64, hw, b.instants.len()));
        }
        let bs = case.bs;
        let blocks_of = |bytes: u64| (bytes + bs - 1) / bs;
        let (k2, sz2, h2, _) = hws[hws.len() - 2];
        let (k3, sz3, h3, nmsg3) = hws[hws.len() - 1];
        let msg_blocks = (max_msg as u64 + bs - 1) / bs;
        let with_search = case.after_frac.is_some();
        // each probe of the binary search may read one whole message (msg_blocks blocks) and its neighbour
        let log_term = if with_search { (2 * (64 - blocks_of(sz3).leading_zeros() as u64) + 8) * (msg_blocks + 1) } else { 0 };
        // timing allowance: the worker runs ahead of the printing thread by the channel depth (5) plus the messages in
        // either thread's hands; what those messages hold cannot be released yet. 8 messages, whatever the file size.
        const IN_FLIGHT: u64 = 8;
        let max_lines_per_msg: u64 = case.unit.iter().map(|(_, c)| 1 + c.len() as u64).max().unwrap_or(1);
        let abs_blocks = (IN_FLIGHT + 1) * msg_blocks + 8 + log_term;
        let ctx = format!(
            "container={} bs={} unit_msgs={} max_msg={}B reps={:?} sizes={:?} blocks_high={:?} lines_high={:?} syslines_high={:?} -a={:?}",
            codec.kind(),
            bs,
            case.unit.len(),
            max_msg,
            case.reps,
            hws.iter().map(|h| h.1).collect::<Vec<_>>(),
            hws.iter().map(|h| h.2.blocks_high).collect::<Vec<_>>(),
            hws.iter().map(|h| h.2.lines_high).collect::<Vec<_>>(),
            hws.iter().map(|h| h.2.syslines_high).collect::<Vec<_>>(),
            case.after_frac
        );
        // relative growth between the middle and the largest file
        let unit_lines: u64 = case.unit.iter().map(|(_, c)| 1 + c.len() as u64).sum();
        let added_blocks = blocks_of(sz3).saturating_sub(blocks_of(sz2));
        let added_lines = unit_lines * (k3 as u64 - k2 as u64);
        let lines_per_block = |h: &Hw| if h.blocks_high > 0 { h.lines_high / h.blocks_high.max(1) + 1 } else { 1 };
        let slack_lines = (2 + log_term) * lines_per_block(&h2).max(8).min(bs + 1) + IN_FLIGHT * max_lines_per_msg;
        let slack_blocks = 2 + log_term + IN_FLIGHT * msg_blocks;
        let grow_b = h3.blocks_high.saturating_sub(h2.blocks_high);
        let grow_l = h3.lines_high.saturating_sub(h2.lines_high);
        let grow_s = h3.syslines_high.saturating_sub(h2.syslines_high);
        let big_enough = sz2 > 2 * abs_blocks * bs;
        if grow_b > slack_blocks && h3.blocks_high > abs_blocks {
            return Outcome::fail("blocks-grow", format!("blocks high grows with file size ({} of {} added blocks retained): {}", grow_b, added_blocks, ctx));
        }
        if big_enough && grow_l > slack_lines {
            return Outcome::fail("lines-grow", format!("lines high grows with file size ({} of {} added lines retained): {}", grow_l, added_lines, ctx));
        }
        if big_enough && grow_s > slack_lines {
            return Outcome::fail("syslines-grow", format!("syslines high grows with file size ({} of about {} added): {}", grow_s, added_lines, ctx));
        }
        let nontrivial = blocks_of(sz3) >= 300 && sz3 >= 3 * sz2 && k3 > k2;
        let mut o = Outcome::pass(nontrivial, hash_debug(case));
        o.evals = hws.len() as u64;
        o = o.class(&format!("container:{}", codec.kind()));
        if blocks_of(sz3) >= 1000 {
            o = o.class("blocks>=1000");
        }
        if msg_blocks >= 3 {
            o = o.class("message-spans>=3-blocks");
        }
        if nmsg3 as u64 > 1024 * blocks_of(sz3) {
            o = o.class("messages-per-block>1024");
        }
        if with_search {
            o = o.class("with -a (search first)");
        }
        if padded_total > 0 {
            o = o.class("newline-on-block-end");
        }
        if case.align_newlines {
            o = o.class("aligned-newlines");
        }
        if case.unit.iter().any(|(h, c)| *h as u64 + 46 > bs || c.iter().any(|l| *l as u64 + 1 > bs)) {
            o = o.class("line-longer-than-block");
        }
        o.with_sample(json!({"container": codec.kind(), "bs": bs, "reps": case.reps, "sizes": hws.iter().map(|h| h.1).collect::<Vec<_>>(),
            "blocks_high": hws.iter().map(|h| h.2.blocks_high).collect::<Vec<_>>(), "lines_high": hws.iter().map(|h| h.2.lines_high).collect::<Vec<_>>(),
            "syslines_high": hws.iter().map(|h| h.2.syslines_high).collect::<Vec<_>>(), "bound_blocks": abs_blocks, "newlines_on_block_end": padded_total}))
    }
}
