//! C11 — year-less timestamps receive the right year.

use crate::bytes::esc_trunc;
use crate::containers::*;
use crate::dt;
use crate::engine::*;
use crate::s4run::*;
use crate::sources::{split_sentinel, SENTINEL};
use crate::window::*;
use proptest::prelude::*;
use serde::{Deserialize, Serialize};
use serde_json::json;

pub struct C11;

pub const YL_TMPLS: &[(&str, &str, &str)] = &[
    ("syslog", "", "%b %e %H:%M:%S"),
    ("syslog-day0", "", "%b %d %H:%M:%S"),
    ("syslog-longmonth", "", "%B %e %H:%M:%S"),
    ("syslog-pri", "<14>", "%b %e %H:%M:%S"),
    ("bracketed", "[", "%b %d %H:%M:%S]"),
];

#[derive(Clone, Debug, Serialize, Deserialize)]
pub struct Case {
    pub tmpl: usize,
    /// -t in units of 15 minutes: the zone the year-less timestamps are written in
    pub tz15: i8,
    /// first instant (local seconds since epoch, in the -t zone) and gaps in seconds (each < 360 days)
    pub start_local: i64,
    pub gaps: Vec<u32>,
    /// where inside the last message's (local) year the modification time lies: 0..=65535 maps monotonically onto the year
    pub mtime_pos: u16,
    /// 0 plain, 1 gz (mtime in header), 2 tar (member mtime), 3 bz2, 4 xz, 5 lz4
    pub cont: u8,
    pub bs: u64,
    pub win: Option<WinSpec>,
    /// probe of known finding F17 (29 Feb directly after an earlier year)
    #[serde(default)]
    pub allow_f17: bool,
    /// container header variant: gz FNAME/FCOMMENT/FEXTRA flags (bits 0..2); tar format (ustar/gnu/pax) and decoy members
    #[serde(default = "hdr_default")]
    pub hdr: u8,
}

fn hdr_default() -> u8 {
    1
}

fn local_year_bounds(y: i64, off: i32) -> (i64, i64) {
    // [first second, last second] of local year y, as UTC seconds
    let a = dt::instant(y, 1, 1, 0, 0, 0, 0, off) / 1_000_000_000;
    let b = dt::instant(y + 1, 1, 1, 0, 0, 0, 0, off) / 1_000_000_000 - 1;
    (a as i64, b as i64)
}

impl Property for C11 {
    type Case = Case;
    fn id(&self) -> &'static str {
        "C11"
    }
    fn rule(&self) -> String {
        "case = year-less log (5 notations: `Mon dd`, `Mon  d`, full month name, <pri> prefix, bracketed) of 2..40 messages with non-decreasing true instants and gaps drawn from {0, seconds, hours, days, months up to < 360 days} so that 0..several year boundaries are crossed, written in the -t zone (15-minute steps); modification time placed anywhere inside the last message's local year incl. its first and last second; stored plain, .gz (mtime in the gzip header with every combination of the optional FNAME/FCOMMENT/FEXTRA fields, decoy file mtime), .tar (member mtime; ustar/gnu/pax, 0..2 decoy members before or after, long member names; decoy file mtime), .bz2/.xz/.lz4 (file mtime); block size 64..65536; optional window. oracle: `-u -d %s.%9f|` prefix of message i == true instant t_i, messages in file order, window selection == filter over the true instants. One case in seven is shifted so that some message falls on a 29 February. Excluded by construction and counted: a 29 February message followed later by a message of a later year (project Issue #245). non-trivial = >=1 year boundary crossed or mtime within a day of a year edge or the zone shifts the year; distinct = hash(case).".into()
    }
    fn assumptions(&self) -> Vec<String> {
        vec!["consecutive gaps are < 360 days (the statement's domain)".into(), "instants 1971..2098".into()]
    }
    fn cases(&self, tier: Tier) -> u32 {
        tier.pick(2000, 40000)
    }
    fn probes(&self, _tier: Tier) -> Vec<(String, Case)> {
        // Jun 14 2043 00:00:00, then Feb 29 2044 00:00:00 (gap 260 days), mtime inside 2044
        let start = dt::instant(2043, 6, 14, 0, 0, 0, 0, 0) / 1_000_000_000;
        let gap = (dt::instant(2044, 2, 29, 0, 0, 0, 0, 0) / 1_000_000_000 - start) as u32;
        vec![("feb29-after-earlier-year".into(), Case { tmpl: 0, tz15: 0, start_local: start as i64, gaps: vec![gap], mtime_pos: 30000, cont: 0, bs: 65536, win: None, allow_f17: true, hdr: 1 })]
    }
    fn strategy(&self, tier: Tier) -> BoxedStrategy<Case> {
        let maxn = tier.pick(40usize, 120);
        let gap = prop_oneof![
            2 => Just(0u32),
            3 => 1u32..120,
            3 => 120u32..90_000,
            3 => 90_000u32..3_000_000,
            2 => 3_000_000u32..31_000_000,
            1 => Just(359 * 86400u32),
        ];
        (
            0..YL_TMPLS.len(),
            -48i8..=56,
            86400i64 * 400..86400i64 * 365 * 120,
            prop::collection::vec(gap, 1..maxn),
            prop_oneof![3 => any::<u16>(), 1 => Just(0u16), 1 => Just(65535u16)],
            0u8..6,
            prop_oneof![2 => 64u64..400, 2 => 400u64..9000, 1 => Just(65536u64)],
            win_spec_or_none(),
            prop::option::weighted(0.15, any::<u16>()),
            any::<u8>(),
        )
            .prop_map(|(tmpl, tz15, mut start_local, gaps, mtime_pos, cont, bs, win, leap, hdr)| {
                // steer: one case in seven shifts the whole log so that message k falls on a 29 February
                if let Some(k) = leap {
                    let k = (k as usize * (gaps.len() + 1)) >> 16;
                    let lk: i64 = start_local + gaps[..k].iter().map(|g| *g as i64).sum::<i64>();
                    let c = dt::civil(lk as i128 * 1_000_000_000, 0);
                    let y = (c.y + 3) / 4 * 4;
                    let target = (dt::instant(y, 2, 29, c.h, c.mi, c.s, 0, 0) / 1_000_000_000) as i64;
                    start_local += target - lk;
                }
                Case { tmpl, tz15, start_local, gaps, mtime_pos, cont, bs, win, allow_f17: false, hdr }
            })
            .boxed()
    }
    fn exec(&self, case: &Case, _ctx: &Ctx) -> Outcome {
        let off = case.tz15 as i32 * 900;
        let (name, pre, fmt) = YL_TMPLS[case.tmpl % YL_TMPLS.len()];
        // true instants (UTC seconds)
        let mut locals = vec![case.start_local];
        for g in &case.gaps {
            locals.push(locals.last().unwrap() + *g as i64);
        }
        let max_local = 86400i64 * 365 * 128;
        if *locals.last().unwrap() > max_local {
            return Outcome::discard("beyond 2098");
        }
        let instants: Vec<i64> = locals.iter().map(|l| l - off as i64).collect();
        // Issue #245 exclusion: a 29 Feb message followed by a message of a later year
        let civils: Vec<dt::Civil> = instants.iter().map(|t| dt::civil(*t as i128 * 1_000_000_000, off)).collect();
        for (i, c) in civils.iter().enumerate() {
            if c.mo == 2 && c.d == 29 && civils[i + 1..].iter().any(|d| d.y > c.y) {
                return Outcome::discard("29 Feb followed by a later year (Issue #245)");
            }
        }
        // fixed finding F18: a 29 Feb message directly preceded by a message of an earlier year was not recognised
        // (the preceding message was re-read with the earlier, non-leap year and swallowed the 29 Feb line)
        let f17 = civils.windows(2).any(|w| w[1].mo == 2 && w[1].d == 29 && w[0].y < w[1].y);
        let mut content = vec![];
        let mut lines = vec![];
        for (i, c) in civils.iter().enumerate() {
            let l = format!("{}{} host prog[{}]: #{} msg", pre, dt::strftime(c, instants[i] as i128 * 1_000_000_000, fmt), i % 10, crate::textgen::letters(i));
            content.extend_from_slice(l.as_bytes());
            content.push(b'\n');
            lines.push(l);
        }
        // block-zero acceptance: first line fits every block (lines are < 64 bytes)
        if lines[0].len() + 1 > case.bs as usize || (content.len() as u64).min(case.bs) >= 8096 && lines.len() < 3 {
            return Outcome::discard("outside block-zero acceptance (F6)");
        }
        let last = civils.last().unwrap();
        let (ya, yb) = local_year_bounds(last.y, off);
        let mtime = ya + ((case.mtime_pos as i128 * (yb - ya + 1) as i128) >> 16) as i64;
        let mtime = mtime.clamp(ya, yb);
        if mtime < 1 || mtime > u32::MAX as i64 {
            return Outcome::discard("mtime outside the representable range");
        }
        let decoy: i64 = 1_234_567_890; // 2009
        let sc = Scratch::new();
        let codec = match case.cont % 6 {
            0 => Codec::Plain,
            1 => Codec::Gz { level: 6, fname: case.hdr & 1 != 0, fcomment: case.hdr & 2 != 0, fextra: case.hdr & 4 != 0, mtime: mtime as u32 },
            2 => Codec::Tar { format: case.hdr % 3, pos: (case.hdr >> 4) % 3, decoys: (case.hdr >> 2) % 3, mtime: mtime as u32, longname: case.hdr & 0x80 != 0 },
            3 => Codec::Bz2 { level: 9 },
            4 => Codec::XzRs,
            _ => Codec::Lz4 { block: 0, linked: false, content_checksum: false, block_checksums: false, content_size: false },
        };
        let f = match wrap(&codec, &content, &sc.dir, "messages", "messages") {
            Ok(f) => f,
            Err(e) => return Outcome::inconclusive(e),
        };
        let file_mtime = if codec.embedded_mtime().is_some() { decoy } else { mtime };
        if let Err(e) = filetime::set_file_mtime(&f, filetime::FileTime::from_unix_time(file_mtime, 0)) {
            return Outcome::inconclusive(format!("set mtime: {}", e));
        }
        let inst_ns: Vec<i64> = instants.iter().map(|t| t * 1_000_000_000).collect();
        let w = case.win.as_ref().map(|w| w.resolve(&inst_ns)).unwrap_or(Window::none());
        let mut args = osargs(["--color", "never", "-u", "-d", "%s.%9f|", "--prepend-separator="]);
        args.push(format!("--separator={}", SENTINEL).into());
        args.push(format!("-t={}", dt::off_colon(off)).into());
        args.push("--blocksz".into());
        args.push(case.bs.to_string().into());
        for a in w.args() {
            args.push(a.into());
        }
        args.push(f.into());
        let out = run_s4(RunSpec { args, tmpdir: Some(&sc.dir), ..Default::default() });
        if out.timed_out {
            return Outcome::inconclusive("timeout".into());
        }
        if !out.ok01() || out.panicked() {
            return Outcome::fail("crash", format!("status={:?} signal={:?} stderr={}", out.status, out.signal, out.stderr_str()));
        }
        let msgs = split_sentinel(&out.stdout);
        let expected: Vec<usize> = (0..lines.len()).filter(|&i| w.contains(inst_ns[i])).collect();
        let years: Vec<i64> = civils.iter().map(|c| c.y).collect();
        let ctx = || {
            format!(
                "tmpl={} -t={} container={} bs={} mtime={} (local year {}) window={:?} years={:?} first_line={:?}",
                name,
                dt::off_colon(off),
                codec.kind(),
                case.bs,
                mtime,
                last.y,
                w.args(),
                &years[..years.len().min(12)],
                lines[0]
            )
        };
        if msgs.len() != expected.len() {
            let sig = if f17 { "feb29-after-earlier-year" } else { "count" };
            return Outcome::fail(sig, format!("{}: printed {} messages, expected {}", ctx(), msgs.len(), expected.len()));
        }
        for (m, &i) in msgs.iter().zip(expected.iter()) {
            let ms = String::from_utf8_lossy(m);
            let bar = ms.find('|').unwrap_or(0);
            let want = format!("{}.000000000", instants[i]);
            if ms[..bar] != want || ms[bar + 1..].trim_end_matches('\n') != lines[i] {
                let got_y = ms[..bar].split('.').next().and_then(|s| s.parse::<i64>().ok()).map(|s| dt::civil(s as i128 * 1_000_000_000, off).y);
                return Outcome::fail("year", format!("{}: message {} {:?} dated {} (local year {:?}), expected {} (local year {})", ctx(), i, esc_trunc(lines[i].as_bytes(), 60), &ms[..bar], got_y, want, civils[i].y));
            }
        }
        let crossings = years.windows(2).filter(|w| w[0] != w[1]).count();
        let near_edge = mtime - ya < 86400 || yb - mtime < 86400;
        let utc_year_differs = civils.iter().enumerate().any(|(i, c)| dt::civil(instants[i] as i128 * 1_000_000_000, 0).y != c.y);
        let mut o = Outcome::pass(crossings >= 1 || near_edge || utc_year_differs, hash_debug(case));
        o = o.class(&format!("year-boundaries:{}", crossings.min(4))).class(&format!("container:{}", codec.kind())).class(&format!("tmpl:{}", name));
        if near_edge {
            o = o.class("mtime-near-year-edge");
        }
        if utc_year_differs {
            o = o.class("zone-shifts-year");
        }
        if case.win.is_some() {
            o = o.class("with-window");
        }
        if civils.iter().any(|c| c.mo == 2 && c.d == 29) {
            o = o.class("has-29-feb");
        }
        if f17 {
            o = o.class("29-feb-after-earlier-year");
        }
        o.with_sample(json!({"tmpl": name, "tz": dt::off_colon(off), "container": codec.kind(), "messages": lines.len(), "years": years.iter().take(10).collect::<Vec<_>>(), "mtime": mtime, "window": w.args()}))
    }
}
