//! C07 — malformed input cannot crash, hang, or disturb other sources.

use crate::bytes::{diff_msg, esc_trunc};
use crate::containers::*;
use crate::dt;
use crate::engine::*;
use crate::fixedgen::*;
use crate::s4run::*;
use crate::sources::repo_logs;
use proptest::prelude::*;
use serde::{Deserialize, Serialize};
use serde_json::json;

pub struct C07;

/// shipped binary logs used as valid starting points (relative to /repo/logs)
pub const SHIPPED_BASES: &[&str] = &[
    "programs/evtx/NoEvents.evtx",
    "programs/evtx/Microsoft-Windows-Kernel-PnP%4Configuration.evtx",
    "programs/evtx/Microsoft-Windows-Kernel-PnP%4Configuration.evtx.gz",
    "programs/evtx/Microsoft-Windows-Kernel-PnP%4Configuration.evtx.xz",
    "programs/evtx/Microsoft-Windows-Kernel-PnP%4Configuration.evtx.bz2",
    "programs/evtx/Microsoft-Windows-Kernel-PnP%4Configuration.evtx.lz4",
    "programs/evtx/Microsoft-Windows-Kernel-PnP%4Configuration.tar",
    "programs/journal/RHE_91_system.journal.gz",
    "programs/journal/RHE_91_system.journal.xz",
    "programs/journal/Ubuntu22-user-1000x3.journal.gz",
    "programs/journal/Ubuntu22-user-1000x3.journal.bz2",
    "programs/journal/Ubuntu22-user-1000x3.journal.lz4",
    "programs/journal/RHE_91_system.journal.gz#gunzip",
    "programs/journal/Ubuntu22-user-1000x3.journal.gz#gunzip",
];

#[derive(Clone, Debug, Serialize, Deserialize, PartialEq, Eq)]
pub enum Base {
    /// generated text log of `n` messages in the container
    Text { n: u8, codec: Codec },
    /// synthesised records of layout in the container
    Fixed { layout: u8, n: u8, codec: Codec },
    Shipped(u8),
    /// random bytes of the given length under the given name
    Random { len: u32, seed: u64, name: String },
    /// a saved input (xz-compressed under /verif/corpus/C07/blobs), stored under its own name without the .xz
    Blob { file: String },
}

#[derive(Clone, Debug, Serialize, Deserialize, PartialEq, Eq)]
pub enum Fault {
    None,
    /// keep the first part; region 0 = inside the first 16 bytes, 1 = inside the last 16 bytes, 2 = anywhere
    Truncate { region: u8, pos: u16 },
    Corrupt { region: u8, pos: u16, bytes: Vec<u8> },
    Fill { pos: u16, len: u16, value: u8 },
    /// store under another name (content and name do not match)
    Rename { name: String },
    /// trailing bytes after the valid content
    Append { bytes: Vec<u8> },
    /// format-aware damage that keeps the container's own checks valid: one field of a tar member header (name,
    /// mode, uid, gid, size, mtime, type flag, link name, magic, user name) set to an extreme value (base-256
    /// maximum, base-256 2^62, octal maximum, blanks, NULs, 0xFF) with the header checksum recomputed; for gzip the
    /// MTIME/XFL/OS header bytes, the flag bits and the ISIZE trailer. Other content: the first 16 bytes.
    Header { field: u8, kind: u8 },
    /// plain .evtx only: the `next` link of an entry of a chunk's string table (table 0) or template table (1) is
    /// redirected: to itself (`to` = 0: the trigger of known finding F27), or to the offset `to`*8 inside the chunk
    EvtxLink { table: u8, bucket: u8, to: u16 },
}

#[derive(Clone, Debug, Serialize, Deserialize)]
pub struct Case {
    pub base: Base,
    pub fault: Fault,
    /// number of well-formed neighbour text sources (0..3)
    pub neighbours: u8,
    /// position of the damaged source among the arguments
    pub position: u8,
}

/// Known finding F27: the `evtx` crate (0.8.5) follows the `next` offsets of a chunk's string table (64 buckets at
/// chunk offset 128) and template table (32 buckets at 384) without cycle detection; a chain that returns to an offset
/// already visited never ends (`StringCache::populate`, `TemplateCache::populate`). Returns the table with such a chain.
pub fn evtx_chain_cycle(data: &[u8]) -> Option<&'static str> {
    let mut base = 4096usize;
    while base + 512 <= data.len() {
        let chunk = &data[base..data.len().min(base + 65536)];
        if chunk.len() >= 512 && &chunk[..8] == b"ElfChnk\0" {
            for (table, first, n) in [("string table", 128usize, 64usize), ("template table", 384, 32)] {
                for b in 0..n {
                    let rd = |o: usize| -> Option<u32> { chunk.get(o..o + 4).map(|x| u32::from_le_bytes(x.try_into().unwrap())) };
                    let mut off = match rd(first + 4 * b) {
                        Some(o) if o > 0 => o as usize,
                        _ => continue,
                    };
                    let mut seen = std::collections::HashSet::new();
                    loop {
                        if !seen.insert(off) {
                            return Some(table);
                        }
                        match rd(off) {
                            Some(next) if next > 0 => off = next as usize,
                            _ => break,
                        }
                        if seen.len() > 70000 {
                            return Some(table);
                        }
                    }
                }
            }
        }
        base += 65536;
    }
    None
}

fn xorshift(s: &mut u64) -> u64 {
    let mut x = *s | 1;
    x ^= x << 13;
    x ^= x >> 7;
    x ^= x << 17;
    *s = x;
    x
}

fn text_bytes(id: &str, n: usize, step_s: i64) -> (Vec<u8>, Vec<(i64, Vec<u8>)>) {
    let mut out = vec![];
    let mut msgs = vec![];
    for k in 0..n {
        let t: i64 = (1_600_000_000 + k as i64 * step_s) * 1_000_000_000;
        let c = dt::civil(t as i128, 0);
        let mut line = dt::strftime(&c, t as i128, "%Y-%m-%dT%H:%M:%S.%6f+00:00").into_bytes();
        line.extend_from_slice(format!(" #{}{} neighbour message\n", id, crate::textgen::letters(k)).as_bytes());
        out.extend_from_slice(&line);
        msgs.push((t, line));
    }
    (out, msgs)
}

pub const MISMATCH_NAMES: &[&str] = &["x.journal", "x.evtx", "x.evtx.gz", "x.journal.xz", "x.tar", "x.wtmp", "x.log.gz", "x.log.bz2", "x.log.xz", "x.log.lz4", "x.lastlog", "x.acct", "x.utmpx.gz", "x.journal.tar", "x.log", "x"];

fn build_damaged(case: &Case, dir: &std::path::Path) -> Result<(std::path::PathBuf, usize, String), String> {
    // returns (path, size, description)
    let (mut data, mut name): (Vec<u8>, String) = match &case.base {
        Base::Text { n, codec } => {
            let (b, _) = text_bytes("zd", (*n as usize).max(1), 3);
            let p = wrap(codec, &b, dir, "zdamaged.log", "zdamaged.log")?;
            let d = std::fs::read(&p).map_err(|e| e.to_string())?;
            let nm = p.file_name().unwrap().to_string_lossy().to_string();
            let _ = std::fs::remove_file(&p);
            (d, nm)
        }
        Base::Fixed { layout, n, codec } => {
            let li = *layout as usize % layouts().len();
            let ff = FixedFile { layout: li, recs: (0..(*n as usize).max(1)).map(|k| FRec { sec: 1_600_000_000 + k as i64, usec: 3, null: 0, pid: 7 + k as i32, typ: 6, serial: k as u32, full: 0, stale: 0, addr: [0; 4] }).collect() };
            let fname = format!("zdamaged.{}", ff.lay().fname);
            let p = wrap(codec, &ff.render(), dir, &fname, &fname)?;
            let d = std::fs::read(&p).map_err(|e| e.to_string())?;
            let nm = p.file_name().unwrap().to_string_lossy().to_string();
            let _ = std::fs::remove_file(&p);
            (d, nm)
        }
        Base::Shipped(i) => {
            let rel = SHIPPED_BASES[*i as usize % SHIPPED_BASES.len()];
            let (rel, gunzip) = match rel.strip_suffix("#gunzip") {
                Some(r) => (r, true),
                None => (rel, false),
            };
            let raw = std::fs::read(repo_logs().join(rel)).map_err(|e| format!("{}: {}", rel, e))?;
            let base = std::path::Path::new(rel).file_name().unwrap().to_string_lossy().to_string();
            if gunzip {
                use std::io::Read;
                let mut v = Vec::new();
                flate2::read::GzDecoder::new(&raw[..]).read_to_end(&mut v).map_err(|e| e.to_string())?;
                (v, format!("zdamaged-{}", base.trim_end_matches(".gz")))
            } else {
                (raw, format!("zdamaged-{}", base))
            }
        }
        Base::Blob { file } => {
            let raw = std::fs::read(crate::engine::verif_root().join("corpus/C07/blobs").join(file)).map_err(|e| format!("{}: {}", file, e))?;
            let mut v = Vec::new();
            lzma_rs::xz_decompress(&mut std::io::Cursor::new(raw), &mut v).map_err(|e| format!("{}: {:?}", file, e))?;
            (v, format!("zdamaged-{}", file.trim_end_matches(".xz")))
        }
        Base::Random { len, seed, name } => {
            let mut s = *seed;
            let v: Vec<u8> = (0..*len).map(|_| (xorshift(&mut s) >> 24) as u8).collect();
            (v, format!("zdamaged-{}", name))
        }
    };
    let n = data.len();
    let region_pos = |region: u8, pos: u16| -> usize {
        if n == 0 {
            return 0;
        }
        match region % 3 {
            0 => (pos as usize * 16.min(n)) >> 16,
            1 => n - 1 - ((pos as usize * 16.min(n)) >> 16),
            _ => (pos as usize * n) >> 16,
        }
    };
    let desc = match &case.fault {
        Fault::None => "no fault".to_string(),
        Fault::Truncate { region, pos } => {
            let p = region_pos(*region, *pos);
            data.truncate(p);
            format!("truncated to {} of {} bytes", p, n)
        }
        Fault::Corrupt { region, pos, bytes } => {
            let p = region_pos(*region, *pos);
            for (k, b) in bytes.iter().enumerate() {
                if p + k < data.len() {
                    data[p + k] ^= *b | 1;
                }
            }
            format!("{} bytes corrupted at {} of {}", bytes.len(), p, n)
        }
        Fault::Fill { pos, len, value } => {
            let p = region_pos(2, *pos);
            let e = (p + *len as usize).min(data.len());
            for b in data[p..e].iter_mut() {
                *b = *value;
            }
            format!("{} bytes at {} of {} set to {:#x}", e - p, p, n, value)
        }
        Fault::Append { bytes } => {
            data.extend_from_slice(bytes);
            format!("{} bytes appended to {}", bytes.len(), n)
        }
        Fault::Rename { name: nn } => {
            name = format!("zdamaged-{}", nn);
            format!("valid content stored as {}", nn)
        }
        Fault::EvtxLink { table, bucket, to } => {
            let mut done = None;
            if data.len() >= 4096 + 512 && &data[4096..4104] == b"ElfChnk\0" {
                let (first, n) = if table % 2 == 0 { (128usize, 64usize) } else { (384, 32) };
                let chunk = 4096;
                // the first used bucket at or after the chosen one
                for k in 0..n {
                    let b = (*bucket as usize + k) % n;
                    let o = u32::from_le_bytes(data[chunk + first + 4 * b..chunk + first + 4 * b + 4].try_into().unwrap()) as usize;
                    if o > 0 && chunk + o + 4 <= data.len() {
                        let target: u32 = if *to == 0 { o as u32 } else { (*to as u32 * 8) % 65536 };
                        data[chunk + o..chunk + o + 4].copy_from_slice(&target.to_le_bytes());
                        done = Some(format!("evtx chunk 0 {} bucket {}: entry at {} now links to {}", if table % 2 == 0 { "string table" } else { "template table" }, b, o, target));
                        break;
                    }
                }
            }
            match done {
                Some(d) => d,
                None => {
                    if !data.is_empty() {
                        let k = (*to as usize) % data.len();
                        data[k] ^= 0x55;
                    }
                    "one byte flipped (not a plain evtx)".to_string()
                }
            }
        }
        Fault::Header { field, kind } => {
            const TAR_FIELDS: &[(&str, usize, usize)] = &[("name", 0, 100), ("mode", 100, 8), ("uid", 108, 8), ("gid", 116, 8), ("size", 124, 12), ("mtime", 136, 12), ("typeflag", 156, 1), ("linkname", 157, 100), ("magic", 257, 6), ("uname", 265, 32)];
            let headers: Vec<usize> = (0..data.len() / 512).map(|b| b * 512).filter(|&o| data.len() >= o + 512 && &data[o + 257..o + 262] == b"ustar").collect();
            if !headers.is_empty() {
                let o = headers[(*field as usize >> 4) % headers.len()];
                let (fname, fo, fl) = TAR_FIELDS[(*field as usize & 15) % TAR_FIELDS.len()];
                let f = &mut data[o + fo..o + fo + fl];
                let what = match kind % 6 {
                    0 => {
                        f.fill(0xFF);
                        f[0] = 0x80;
                        "base-256 maximum"
                    }
                    1 => {
                        f.fill(0);
                        f[0] = 0x80;
                        if fl >= 9 {
                            f[fl - 8] = 0x40;
                        }
                        "base-256 2^62"
                    }
                    2 => {
                        f.fill(b'7');
                        f[fl - 1] = 0;
                        "octal maximum"
                    }
                    3 => {
                        f.fill(b' ');
                        "blanks"
                    }
                    4 => {
                        f.fill(0);
                        "NULs"
                    }
                    _ => {
                        f.fill(0xFF);
                        "0xFF"
                    }
                };
                // recompute the header checksum so that the archive stays well-formed
                data[o + 148..o + 156].fill(b' ');
                let sum: u32 = data[o..o + 512].iter().map(|&b| b as u32).sum();
                data[o + 148..o + 156].copy_from_slice(format!("{:06o}\0 ", sum).as_bytes());
                format!("tar header at {}: {} = {} (checksum recomputed)", o, fname, what)
            } else if data.len() >= 18 && data[0] == 0x1f && data[1] == 0x8b {
                let n = data.len();
                match field % 5 {
                    0 => {
                        data[4..8].fill(0xFF);
                        "gzip MTIME = 0xFFFFFFFF".to_string()
                    }
                    1 => {
                        data[8] = *kind;
                        data[9] = kind.wrapping_mul(7);
                        "gzip XFL/OS changed".to_string()
                    }
                    2 => {
                        data[n - 4..].fill(if kind % 2 == 0 { 0 } else { 0xFF });
                        format!("gzip ISIZE = {}", if kind % 2 == 0 { "0" } else { "0xFFFFFFFF" })
                    }
                    3 => {
                        data[3] |= 1 << (kind % 8);
                        format!("gzip flag bit {} set", kind % 8)
                    }
                    _ => {
                        data[n - 8..n - 4].fill(*kind);
                        "gzip CRC32 overwritten".to_string()
                    }
                }
            } else if data.len() >= 32 && data[..6] == [0xFD, b'7', b'z', b'X', b'Z', 0] {
                // xz: the first block header starts at offset 12: size byte, flags, optional compressed and
                // uncompressed sizes as variable-length integers, filter flags, padding, CRC32 of the header
                let hsz = (data[12] as usize + 1) * 4;
                let what = match field % 4 {
                    0 => {
                        data[13] |= 0x80;
                        for b in data[14..22].iter_mut() {
                            *b = 0xFF;
                        }
                        data[22] = 0x7F;
                        "uncompressed size = 2^63-1"
                    }
                    1 => {
                        data[13] |= 0x40;
                        for b in data[14..22].iter_mut() {
                            *b = 0xFF;
                        }
                        data[22] = 0x7F;
                        "compressed size = 2^63-1"
                    }
                    2 => {
                        data[12] = 0xFF;
                        "header size = 1024"
                    }
                    _ => {
                        data[13] |= 0x03;
                        "four filters"
                    }
                };
                if kind % 2 == 0 && 12 + hsz <= data.len() && hsz >= 8 {
                    let mut crc = flate2::Crc::new();
                    crc.update(&data[12..12 + hsz - 4]);
                    let c = crc.sum().to_le_bytes();
                    data[12 + hsz - 4..12 + hsz].copy_from_slice(&c);
                    format!("xz block header: {} (header CRC recomputed)", what)
                } else {
                    format!("xz block header: {}", what)
                }
            } else {
                for (k, b) in data.iter_mut().take(16).enumerate() {
                    if k as u8 % 3 == kind % 3 {
                        *b = b.wrapping_add(*field | 1);
                    }
                }
                "first 16 bytes altered".to_string()
            }
        }
    };
    let p = dir.join(&name);
    std::fs::write(&p, &data).map_err(|e| e.to_string())?;
    Ok((p, data.len(), format!("{} [{}]", name, desc)))
}

impl Property for C07 {
    type Case = Case;
    fn id(&self) -> &'static str {
        "C07"
    }
    fn rule(&self) -> String {
        "case = a valid starting file of every kind (generated text log or accounting-record file in plain/gz/bz2/xz/lz4/tar; shipped evtx, journals and their gz/xz/bz2/lz4/tar forms; random byte strings of lengths {0,1,5,6,7,8,11,12,63,64,65,384,4096,70000} under log-like names) x fault (truncation inside the first 16 bytes / the last 16 bytes (trailers, size fields) / anywhere; 1..8 corrupted bytes in the same regions; up to 4 KiB filled with 0x00 or 0xFF; valid content stored under a mismatching name such as text as x.journal, records as x.evtx.gz, gz as x.tar; format-aware header damage that keeps the container's own checks valid: a tar member header field set to an extreme value with the checksum recomputed, gzip MTIME/XFL/OS/flag bits/ISIZE/CRC, xz block-header sizes and filter count with and without a recomputed header CRC) x 0..3 well-formed neighbour text sources x position of the damaged file among the arguments. oracle: exit status 0 or 1, no fatal signal, no `panicked at` on stderr, ends within the watchdog (a stalled process is a deadlock), and the lines attributed (through -n) to the neighbours equal the neighbours' reference merge, complete and in order. non-trivial = the fault changes what s4 reports (stderr or stdout differs from the fault-free run of the same base) and >= 1 neighbour is present; distinct = hash(case).".into()
    }
    fn assumptions(&self) -> Vec<String> {
        vec!["neighbour lines are recognised by their file-name prefix (-n); the damaged file has another name".into(), "coverage-guided fuzzing of the readers is a separate thorough-tier campaign (harness/fuzz)".into()]
    }
    fn cases(&self, tier: Tier) -> u32 {
        tier.pick(3000, 60000)
    }
    fn probes(&self, _tier: Tier) -> Vec<(String, Case)> {
        // small-scope sweep: every cut and every single damaged byte in the first and last 16 bytes of small containers
        let codecs: Vec<Codec> = vec![
            Codec::Gz { level: 6, fname: false, fcomment: false, fextra: false, mtime: 1 },
            Codec::Gz { level: 0, fname: true, fcomment: true, fextra: true, mtime: 1 },
            Codec::GzFlush { level: 6, full: true, points: vec![40], mtime: 1 },
            Codec::Bz2 { level: 9 },
            Codec::Xz { preset: 6, check: 1 },
            Codec::XzRs,
            Codec::Lz4 { block: 0, linked: false, content_checksum: true, block_checksums: false, content_size: true },
            Codec::Tar { format: 0, pos: 0, decoys: 0, mtime: 1, longname: false },
            Codec::Plain,
        ];
        let mut v = vec![];
        for codec in &codecs {
            for n in [1u8, 3, 12] {
                for (bi, base) in [Base::Text { n, codec: codec.clone() }, Base::Fixed { layout: 0, n, codec: codec.clone() }].into_iter().enumerate() {
                    if bi == 1 && n == 12 {
                        continue;
                    }
                    for k in 0..16u32 {
                        let pos = ((k << 16) / 16 + 100) as u16;
                        for region in 0..2u8 {
                            v.push((format!("sweep-trunc-{}-{}-{}-{}", codec.kind(), n, region, k), Case { base: base.clone(), fault: Fault::Truncate { region, pos }, neighbours: 1, position: (k % 2) as u8 }));
                            if k < 10 {
                                v.push((format!("sweep-corrupt-{}-{}-{}-{}", codec.kind(), n, region, k), Case { base: base.clone(), fault: Fault::Corrupt { region, pos, bytes: vec![0x5a] }, neighbours: 1, position: (k % 2) as u8 }));
                            }
                        }
                    }
                    for len in [1usize, 4, 8, 12] {
                        v.push((format!("sweep-append-{}-{}-{}", codec.kind(), n, len), Case { base: base.clone(), fault: Fault::Append { bytes: vec![7; len] }, neighbours: 1, position: 1 }));
                    }
                }
            }
        }
        // known findings F27/F28: saved libFuzzer inputs (fuzz_evtx)
        for f in ["string-chain-cycle.evtx.xz", "template-expansion-hang.evtx.xz", "value-variant-panic.evtx.xz"] {
            v.push((format!("blob-{}", f.trim_end_matches(".evtx.xz")), Case { base: Base::Blob { file: f.to_string() }, fault: Fault::None, neighbours: 1, position: 0 }));
        }
        // known finding F27: self-linked string-table entry in the shipped evtx
        v.push(("evtx-string-table-self-link".to_string(), Case { base: Base::Shipped(1), fault: Fault::EvtxLink { table: 0, bucket: 0, to: 0 }, neighbours: 1, position: 0 }));
        v
    }
    fn strategy(&self, _tier: Tier) -> BoxedStrategy<Case> {
        let nl = layouts().len() as u8;
        let base = prop_oneof![
            4 => (prop_oneof![1 => 1u8..4, 1 => 4u8..30], any_codec_or_plain()).prop_map(|(n, codec)| Base::Text { n, codec }),
            3 => (0u8..nl, 1u8..20, any_codec_or_plain()).prop_map(|(layout, n, codec)| Base::Fixed { layout, n, codec }),
            4 => (0u8..SHIPPED_BASES.len() as u8).prop_map(Base::Shipped),
            2 => (prop::sample::select(vec![0u32, 1, 5, 6, 7, 8, 11, 12, 63, 64, 65, 384, 4096, 70000]), any::<u64>(), prop::sample::select(MISMATCH_NAMES.to_vec())).prop_map(|(len, seed, name)| Base::Random { len, seed, name: name.to_string() }),
        ];
        let fault = prop_oneof![
            1 => Just(Fault::None),
            5 => (0u8..3, any::<u16>()).prop_map(|(region, pos)| Fault::Truncate { region, pos }),
            5 => (0u8..3, any::<u16>(), prop::collection::vec(any::<u8>(), 1..=8)).prop_map(|(region, pos, bytes)| Fault::Corrupt { region, pos, bytes }),
            2 => (any::<u16>(), 1u16..4096, prop::sample::select(vec![0u8, 0xff])).prop_map(|(pos, len, value)| Fault::Fill { pos, len, value }),
            3 => prop::sample::select(MISMATCH_NAMES.to_vec()).prop_map(|n| Fault::Rename { name: n.to_string() }),
            2 => prop::collection::vec(any::<u8>(), 1..=12).prop_map(|bytes| Fault::Append { bytes }),
            4 => (any::<u8>(), any::<u8>()).prop_map(|(field, kind)| Fault::Header { field, kind }),
            1 => (any::<u8>(), any::<u8>(), prop_oneof![1 => Just(0u16), 3 => any::<u16>()]).prop_map(|(table, bucket, to)| Fault::EvtxLink { table, bucket, to }),
        ];
        (base, fault, 0u8..4, any::<u8>()).prop_map(|(base, fault, neighbours, position)| Case { base, fault, neighbours, position }).boxed()
    }
    fn exec(&self, case: &Case, _ctx: &Ctx) -> Outcome {
        let sc = Scratch::new();
        let dir = sc.subdir("in");
        let tmp = sc.subdir("tmp");
        let (dpath, dsize, desc) = match build_damaged(case, &dir) {
            Ok(x) => x,
            Err(e) => return Outcome::inconclusive(e),
        };
        // neighbours
        let mut npaths = vec![];
        let mut nmsgs: Vec<(i64, usize, Vec<u8>)> = vec![];
        for i in 0..case.neighbours.min(3) as usize {
            let id = format!("n{}", (b'a' + i as u8) as char);
            let (b, msgs) = text_bytes(&id, 6 + i * 3, 2 + i as i64);
            let name = format!("n{}.log", (b'a' + i as u8) as char);
            let p = dir.join(&name);
            std::fs::write(&p, &b).unwrap();
            for (t, l) in msgs {
                let mut pl = format!("{}:", name).into_bytes();
                pl.extend_from_slice(&l);
                nmsgs.push((t, i, pl));
            }
            npaths.push(p);
        }
        nmsgs.sort_by_key(|(t, i, _)| (*t, *i));
        let want: Vec<u8> = nmsgs.iter().flat_map(|(_, _, l)| l.clone()).collect();
        let mut paths = npaths.clone();
        let pos = case.position as usize % (paths.len() + 1);
        paths.insert(pos, dpath.clone());
        let mut args = osargs(["--color", "never", "-t=+00:00", "-n"]);
        for p in &paths {
            args.push(p.clone().into());
        }
        let out = run_s4(RunSpec { args, tmpdir: Some(&tmp), timeout: std::time::Duration::from_secs(120), cpu_limit: Some(std::time::Duration::from_secs(20)), backtrace_on_hang: true, ..Default::default() });
        let ctx = format!("damaged={} ({} bytes) neighbours={} position={}", desc, dsize, npaths.len(), pos);
        if out.timed_out {
            if out.deadlocked {
                return Outcome::fail("hang", format!("{}: the process stopped making progress", ctx));
            }
            // known finding F27: a cyclic chain in an evtx chunk's string or template table never ends inside the evtx crate
            if dpath.to_string_lossy().ends_with(".evtx") {
                if let Some(table) = std::fs::read(&dpath).ok().and_then(|d| evtx_chain_cycle(&d)) {
                    return Outcome::fail("evtx-chain-cycle-hang", format!("{}: cyclic {} chain, the evtx crate's populate() loop never ends", ctx, table));
                }
            }
            // known finding family F27: endless or exponential work inside the third-party evtx crate (attributed by call
            // site: every busy thread of the process is inside `evtx::` frames below `EvtxReader::analyze`)
            // the saved input itself is the finding's identity, whatever gdb can say about it
            if matches!((&case.base, &case.fault), (Base::Blob { file }, Fault::None) if file == "template-expansion-hang.evtx.xz") {
                return Outcome::fail("evtx-crate-hang", format!("{}: the saved input of known finding F28a", ctx));
            }
            let busy: Vec<&str> = out.hang_backtrace.split("\nThread ").filter(|t| t.contains("EvtxReader") || t.contains(" evtx::")).collect();
            if !busy.is_empty() && busy.iter().all(|t| t.contains(" evtx::")) {
                let site = busy[0].lines().find(|l| l.contains(" evtx::")).unwrap_or("").trim().to_string();
                return Outcome::fail("evtx-crate-hang", format!("{}: spinning inside the evtx crate at {}", ctx, crate::bytes::esc_trunc(site.as_bytes(), 200)));
            }
            return Outcome::fail("hang-busy", format!("{}: still running (and consuming CPU) after {}; backtrace: {}", ctx, if out.cpu_exceeded { "20 s of CPU time" } else { "120 s" }, crate::bytes::esc_trunc(out.hang_backtrace.as_bytes(), 1500)));
        }
        if out.signal == Some(libc::SIGABRT) && out.stderr_str().contains("panicked at") && out.stderr_str().lines().any(|l| l.contains("panicked at") && l.contains("/evtx-0.")) {
            // known finding family F28: a panic whose location lies inside the evtx crate's sources (panic=abort)
            let site = out.stderr_str().lines().find(|l| l.contains("panicked at")).unwrap_or("").to_string();
            return Outcome::fail("evtx-crate-panic", format!("{}: {}", ctx, crate::bytes::esc_trunc(site.as_bytes(), 300)));
        }
        if out.signal.is_some() {
            return Outcome::fail("fatal-signal", format!("{}: killed by signal {:?}; stderr={}", ctx, out.signal, esc_trunc(&out.stderr, 600)));
        }
        if out.panicked() {
            return Outcome::fail("panic", format!("{}: stderr={}", ctx, esc_trunc(&out.stderr, 600)));
        }
        if !matches!(out.status, Some(0) | Some(1)) {
            return Outcome::fail("exit-status", format!("{}: exit status {:?}; stderr={}", ctx, out.status, esc_trunc(&out.stderr, 400)));
        }
        // lines attributed to the neighbours
        let mut got: Vec<u8> = vec![];
        for line in out.stdout.split_inclusive(|&b| b == b'\n') {
            // an accounting record is followed by "\n\0": the NUL then precedes the next printed line
            let line: &[u8] = if line.first() == Some(&0) { &line[1..] } else { line };
            if line.len() > 7 && line[0] == b'n' && line[1].is_ascii_lowercase() && &line[2..7] == b".log:" {
                got.extend_from_slice(line);
            }
        }
        if got != want {
            return Outcome::fail("neighbours-disturbed", format!("{}: {}", ctx, diff_msg(&got, &want)));
        }
        let nontrivial = !npaths.is_empty() && !matches!(case.fault, Fault::None);
        let mut o = Outcome::pass(nontrivial, hash_debug(case));
        let bk = match &case.base {
            Base::Text { codec, .. } => format!("text/{}", codec.kind()),
            Base::Fixed { codec, .. } => format!("fixedstruct/{}", codec.kind()),
            Base::Shipped(i) => format!("shipped:{}", SHIPPED_BASES[*i as usize % SHIPPED_BASES.len()].rsplit('/').next().unwrap().rsplit('.').take(2).collect::<Vec<_>>().into_iter().rev().collect::<Vec<_>>().join(".")),
            Base::Random { .. } => "random-bytes".to_string(),
            Base::Blob { file } => format!("blob:{}", file),
        };
        o = o.class(&format!("base:{}", bk));
        o = o.class(match &case.fault {
            Fault::None => "fault:none",
            Fault::Truncate { region, .. } => ["fault:truncate-head", "fault:truncate-tail", "fault:truncate-any"][*region as usize % 3],
            Fault::Corrupt { region, .. } => ["fault:corrupt-head", "fault:corrupt-tail", "fault:corrupt-any"][*region as usize % 3],
            Fault::Fill { .. } => "fault:fill",
            Fault::Rename { .. } => "fault:name-mismatch",
            Fault::Append { .. } => "fault:append",
            Fault::Header { .. } => "fault:header-field",
            Fault::EvtxLink { .. } => "fault:evtx-link",
        });
        if out.status == Some(1) {
            o = o.class("exit-status-1");
        }
        if !out.stderr.is_empty() {
            o = o.class("error-reported");
        }
        o.with_sample(json!({"damaged": desc, "bytes": dsize, "neighbours": npaths.len(), "position": pos, "exit": out.status, "stderr": esc_trunc(&out.stderr, 160)}))
    }
}
