//! C18 — no temporary files are left behind, even on Ctrl-C.

use crate::engine::*;
use crate::s4run::*;
use crate::sources::repo_logs;
use proptest::prelude::*;
use serde::{Deserialize, Serialize};
use serde_json::json;
use std::time::{Duration, Instant};

pub struct C18;

/// shipped compressed / archived journal and evtx files (relative to /repo/logs)
pub const POOL: &[&str] = &[
    "programs/evtx/Microsoft-Windows-Kernel-PnP%4Configuration.evtx.gz",
    "programs/evtx/Microsoft-Windows-Kernel-PnP%4Configuration.evtx.xz",
    "programs/evtx/Microsoft-Windows-Kernel-PnP%4Configuration.evtx.bz2",
    "programs/evtx/Microsoft-Windows-Kernel-PnP%4Configuration.evtx.lz4",
    "programs/evtx/Microsoft-Windows-Kernel-PnP%4Configuration.tar",
    "programs/journal/RHE_91_system.journal.gz",
    "programs/journal/RHE_91_system.journal.xz",
    "programs/journal/RHE_91_system.journal.bz2",
    "programs/journal/RHE_91_system.journal.lz4",
    "programs/journal/Ubuntu22-user-1000x3.journal.gz",
    "programs/journal/Ubuntu22-user-1000x3.journal.bz2",
    "programs/journal/Ubuntu22-user-1000x3.journal.lz4",
];

#[derive(Clone, Debug, Serialize, Deserialize)]
pub struct Case {
    /// indices into POOL
    pub files: Vec<u8>,
    /// add a plain text source
    pub with_text: bool,
    pub extract_delay_us: u32,
    pub ntf_delay_us: u32,
    /// slow the printing phase down through the coordinator jitter hook (1..3 ms per poll)
    #[serde(default)]
    pub slow_printing: bool,
    /// SIGINT instants: fraction (0..=65535) of the unsignalled wall time, or dense early instants in microseconds when `early`
    pub signals: Vec<(bool, u16)>,
}

fn listing(dir: &std::path::Path) -> Vec<String> {
    std::fs::read_dir(dir).map(|rd| rd.flatten().map(|e| e.file_name().to_string_lossy().to_string()).collect()).unwrap_or_default()
}

struct Run {
    printed_at_signal: u64,
    status: Option<i32>,
    signal: Option<i32>,
    wall: Duration,
    after_signal: Option<Duration>,
    temp_at_signal: usize,
    leftovers: Vec<String>,
    timed_out: bool,
    stderr: String,
}

fn run_once(args: &[std::ffi::OsString], tmp: &std::path::Path, env: &[(String, String)], sig_after: Option<Duration>) -> Run {
    use std::process::{Command, Stdio};
    let _ = std::fs::remove_dir_all(tmp);
    std::fs::create_dir_all(tmp).unwrap();
    let mut cmd = Command::new(s4_bin());
    cmd.args(args).env_clear().env("TZ", "UTC").env("PATH", "/usr/bin:/bin").env("TMPDIR", tmp);
    for (k, v) in env {
        cmd.env(k, v);
    }
    cmd.stdin(Stdio::null()).stdout(Stdio::piped()).stderr(Stdio::piped());
    // a harness started as a background job of a non-interactive shell inherits SIGINT ignored; s4 must start with the
    // default disposition, as under a terminal, or an interrupt before its handler is installed is silently lost
    unsafe {
        use std::os::unix::process::CommandExt;
        cmd.pre_exec(|| {
            libc::signal(libc::SIGINT, libc::SIG_DFL);
            libc::prctl(libc::PR_SET_PDEATHSIG, libc::SIGKILL);
            Ok(())
        });
    }
    RUNS.fetch_add(1, std::sync::atomic::Ordering::Relaxed);
    let t0 = Instant::now();
    let mut child = cmd.spawn().expect("spawn s4");
    let pid = child.id() as i32;
    let out_bytes = std::sync::Arc::new(std::sync::atomic::AtomicU64::new(0));
    let ob = out_bytes.clone();
    let mut so = child.stdout.take().unwrap();
    let tho = std::thread::spawn(move || {
        use std::io::Read;
        let mut buf = [0u8; 65536];
        while let Ok(n) = so.read(&mut buf) {
            if n == 0 {
                break;
            }
            ob.fetch_add(n as u64, std::sync::atomic::Ordering::Relaxed);
        }
    });
    let mut se = child.stderr.take().unwrap();
    let th = std::thread::spawn(move || {
        use std::io::Read;
        let mut v = Vec::new();
        let _ = se.read_to_end(&mut v);
        v
    });
    let mut signalled_at: Option<Instant> = None;
    let mut temp_at_signal = 0;
    let mut printed_at_signal = 0u64;
    let mut timed_out = false;
    let status = loop {
        if let Ok(Some(st)) = child.try_wait() {
            break st;
        }
        let el = t0.elapsed();
        if let (Some(d), None) = (sig_after, signalled_at) {
            if el >= d {
                temp_at_signal = listing(tmp).len();
                printed_at_signal = out_bytes.load(std::sync::atomic::Ordering::Relaxed);
                unsafe {
                    libc::kill(pid, libc::SIGINT);
                }
                signalled_at = Some(Instant::now());
            }
        }
        if el > Duration::from_secs(90) {
            timed_out = true;
            let _ = child.kill();
            break child.wait().unwrap();
        }
        let nap = match (sig_after, signalled_at) {
            (Some(d), None) => d.saturating_sub(el).min(Duration::from_micros(300)).max(Duration::from_micros(20)),
            _ => Duration::from_micros(300),
        };
        std::thread::sleep(nap);
    };
    let end = Instant::now();
    use std::os::unix::process::ExitStatusExt;
    let stderr = String::from_utf8_lossy(&th.join().unwrap_or_default()).to_string();
    let _ = tho.join();
    Run { printed_at_signal, status: status.code(), signal: status.signal(), wall: end - t0, after_signal: signalled_at.map(|s| end - s), temp_at_signal, leftovers: listing(tmp), timed_out, stderr }
}

impl Property for C18 {
    type Case = Case;
    fn id(&self) -> &'static str {
        "C18"
    }
    fn rule(&self) -> String {
        "case = 1..6 shipped compressed/archived journal and evtx files (gz, xz, bz2, lz4, tar) processed concurrently (+ optional text source; one case in seven uses tar members only), extraction slowed through the s4_verif delay hooks (per chunk 0/200/2000/30000 us; 0/500/5000 us between temp-file creation and its registration) x one unsignalled run + 4 (quick) / 16 (thorough) runs interrupted by SIGINT at generated instants: uniform over the unsignalled wall time, dense in the first 6 ms, and just before the normal end. oracle: after the process has exited the private TMPDIR is empty (every run, signalled or not); exit status 0/1, or death by SIGINT before the handler is installed; a signalled run must not simply run on to its normal end (decided only when the unsignalled run would have needed > 3.75 s more; one case in seven stretches extraction to 30 ms per chunk for that). non-trivial = the signal arrived while >= 1 temp file existed; distinct = (case, signal instant).".into()
    }
    fn assumptions(&self) -> Vec<String> {
        vec!["crash points are sampled, not enumerated; the signal instant is controlled to roughly 50-300 us".into(), "a leftover seen once is a violation regardless of reproducibility".into()]
    }
    fn cases(&self, tier: Tier) -> u32 {
        tier.pick(120, 800)
    }
    fn shrink_iters(&self) -> u32 {
        40
    }
    fn strategy(&self, tier: Tier) -> BoxedStrategy<Case> {
        let ns = tier.pick(4usize, 16);
        (
            prop::collection::vec(0u8..POOL.len() as u8, 1..=6),
            prop::bool::weighted(0.3),
            prop_oneof![6 => Just(0u32), 6 => Just(200u32), 6 => Just(2000u32), 3 => Just(30000u32)],
            prop::sample::select(vec![0u32, 500, 5000]),
            prop::collection::vec((prop::bool::weighted(0.35), any::<u16>()), ns..=ns),
            prop::bool::weighted(0.1),
            prop::bool::weighted(0.15),
        )
            .prop_map(|(mut files, with_text, extract_delay_us, ntf_delay_us, signals, slow_printing, tar_only)| {
                // one case in seven: every source that needs a temporary file is a member of a tar archive
                if tar_only {
                    let tar = POOL.iter().position(|p| p.ends_with(".tar")).unwrap_or(0) as u8;
                    for f in files.iter_mut() {
                        *f = tar;
                    }
                }
                Case { files, with_text, extract_delay_us, ntf_delay_us, slow_printing: slow_printing && extract_delay_us < 30000, signals }
            })
            .boxed()
    }
    fn exec(&self, case: &Case, _ctx: &Ctx) -> Outcome {
        let sc = Scratch::new();
        let dir = sc.subdir("in");
        let tmp = sc.path("tmpdir");
        let mut args = osargs(["--color", "never", "-t=+00:00"]);
        for (i, f) in case.files.iter().enumerate() {
            let rel = POOL[*f as usize % POOL.len()];
            let src = repo_logs().join(rel);
            let name = std::path::Path::new(rel).file_name().unwrap().to_string_lossy().to_string();
            let dst = dir.join(format!("s{}-{}", i, name));
            if let Err(e) = std::fs::copy(&src, &dst) {
                return Outcome::inconclusive(format!("copy {}: {}", src.display(), e));
            }
            args.push(dst.into());
        }
        if case.with_text {
            let p = dir.join("plain.log");
            std::fs::write(&p, b"2023-04-10T20:56:34.000000+00:00 #a text one\n2023-04-10T21:00:00.000000+00:00 #b text two\n").unwrap();
            args.push(p.into());
        }
        let mut env = vec![("S4_VERIF_EXTRACT_DELAY_US".to_string(), case.extract_delay_us.to_string()), ("S4_VERIF_NTF_DELAY_US".to_string(), case.ntf_delay_us.to_string())];
        if case.slow_printing {
            env.push(("S4_VERIF_JITTER".to_string(), "7:1000:3000".to_string()));
        }
        let kinds: Vec<&str> = case.files.iter().map(|f| POOL[*f as usize % POOL.len()].rsplit('/').next().unwrap()).collect();
        let ctx = format!("files={:?} extract_delay_us={} ntf_delay_us={}", kinds, case.extract_delay_us, case.ntf_delay_us);
        // unsignalled run
        let r0 = run_once(&args, &tmp, &env, None);
        if r0.timed_out {
            return Outcome::inconclusive(format!("{}: unsignalled run timed out", ctx));
        }
        if r0.signal.is_some() || !matches!(r0.status, Some(0) | Some(1)) || r0.stderr.contains("panicked at") {
            return Outcome::fail("crash", format!("{}: unsignalled run status={:?} signal={:?} stderr={}", ctx, r0.status, r0.signal, crate::bytes::esc_trunc(r0.stderr.as_bytes(), 400)));
        }
        if !r0.leftovers.is_empty() {
            return Outcome::fail("leftover-after-normal-run", format!("{}: after a normal run (exit {:?}) TMPDIR holds {:?}", ctx, r0.status, r0.leftovers));
        }
        let t = r0.wall;
        let mut evals = 1u64;
        let mut hit_with_temp = 0;
        let mut promptness_decidable = 0;
        let mut key = hash_debug(case);
        for (early, v) in &case.signals {
            let d = if *early {
                Duration::from_micros((*v as u64 * 6000) >> 16)
            } else if *v > 60000 {
                // just before the normal end
                t.saturating_sub(Duration::from_micros(((65535 - *v) as u64) * 4))
            } else {
                Duration::from_nanos(((t.as_nanos() as u128 * *v as u128) >> 16) as u64)
            };
            let r = run_once(&args, &tmp, &env, Some(d));
            evals += 1;
            if r.timed_out {
                return Outcome::fail("no-prompt-exit", format!("{}: SIGINT after {:?} and the process was still running after 90 s", ctx, d));
            }
            let ok_status = matches!(r.status, Some(0) | Some(1)) || r.signal == Some(libc::SIGINT);
            if !ok_status || r.stderr.contains("panicked at") {
                return Outcome::fail("crash", format!("{}: SIGINT after {:?}: status={:?} signal={:?} stderr={}", ctx, d, r.status, r.signal, crate::bytes::esc_trunc(r.stderr.as_bytes(), 400)));
            }
            if !r.leftovers.is_empty() {
                let sig = if r.after_signal.is_some() { "leftover-after-sigint" } else { "leftover-after-normal-run" };
                return Outcome::fail(sig, format!("{}: SIGINT after {:?} (of {:?} unsignalled): status={:?} signal={:?}; TMPDIR holds {:?} ({} temp files existed at the signal)", ctx, d, t, r.status, r.signal, r.leftovers, r.temp_at_signal));
            }
            if let Some(a) = r.after_signal {
                // promptness, robust against machine load: the run must not simply continue to its normal end.
                // Only decidable when the unsignalled run would have needed clearly more than 3 s after the signal.
                let remaining = t.saturating_sub(d);
                if a > Duration::from_secs(3) && a.as_secs_f64() > 0.8 * remaining.as_secs_f64() && r.signal.is_none() {
                    // fixed finding F21 (d19963f3): while nothing had been delivered yet (sources still being extracted) the
                    // interrupt was only acted upon when the next datum arrived
                    let sig = if r.printed_at_signal == 0 { "no-prompt-exit-before-first-message" } else { "no-prompt-exit" };
                    return Outcome::fail(sig, format!("{}: SIGINT after {:?} of {:?} ({} bytes printed so far): the process ran on for {:?}", ctx, d, t, r.printed_at_signal, a));
                }
                if remaining > Duration::from_millis(3750) {
                    promptness_decidable += 1;
                }
            }
            if r.temp_at_signal > 0 {
                hit_with_temp += 1;
                key ^= fnv(&d.as_micros().to_le_bytes());
            }
        }
        let mut o = Outcome::pass(hit_with_temp > 0, key);
        o.evals = evals;
        o = o.class(&format!("sources:{}", case.files.len()));
        if hit_with_temp > 0 {
            o = o.class("signal-while-temp-file-exists");
        }
        if case.extract_delay_us > 0 {
            o = o.class("slow-extraction");
        }
        if case.ntf_delay_us > 0 {
            o = o.class("slow-registration");
        }
        if case.slow_printing {
            o = o.class("slow-printing");
        }
        if promptness_decidable > 0 {
            o = o.class("promptness-decidable(run>3.75s-after-signal)");
        }
        o.with_sample(json!({"files": kinds, "extract_delay_us": case.extract_delay_us, "ntf_delay_us": case.ntf_delay_us, "unsignalled_wall_ms": t.as_millis() as u64, "signals_with_temp_file": hit_with_temp, "signals": case.signals.len()}))
    }
}
