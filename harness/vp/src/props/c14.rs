//! C14 — datetime-filter arguments resolve to the documented instant.

use crate::dt;
use crate::engine::*;
use crate::props::c04::tz_table;
use crate::s4run::*;
use proptest::prelude::*;
use serde::{Deserialize, Serialize};
use serde_json::json;

pub struct C14;

#[derive(Clone, Debug, Serialize, Deserialize, PartialEq, Eq)]
pub enum ZoneSp {
    None,
    /// +hhmm
    NoColon(i8),
    /// +hh:mm
    Colon(i8),
    /// +hh (whole hours)
    Hh(i8),
    /// named, index into the unambiguous upper-case names
    Named(u16),
}

#[derive(Clone, Debug, Serialize, Deserialize, PartialEq, Eq)]
pub struct Abs {
    /// 0 basic `%Y%m%dT%H%M%S`, 1 `%Y-%m-%d %H:%M:%S`, 2 `%Y-%m-%dT%H:%M:%S`, 3 `%Y/%m/%d %H:%M:%S`
    pub shape: u8,
    /// 0, 3 or 6 fractional digits
    pub frac: u8,
    pub zone: ZoneSp,
    /// shape 2 only: a space before the zone
    pub space: bool,
    /// local civil day number (1970-01-01 = 0) and second of day, microseconds
    pub day: u32,
    pub sod: u32,
    pub us: u32,
}

#[derive(Clone, Debug, Serialize, Deserialize, PartialEq, Eq)]
pub enum Arg {
    Abs(Abs),
    /// 0 `%Y%m%d`, 1 `%Y-%m-%d`, 2 `%Y/%m/%d`
    Date { shape: u8, day: u32 },
    Epoch { secs: i64 },
    /// relative to now
    Rel { neg: bool, units: Vec<(char, u32)> },
}

#[derive(Clone, Debug, Serialize, Deserialize)]
pub enum Case {
    /// one bound given as `arg`; `is_after` selects -a or -b
    One { arg: Arg, is_after: bool, cli_off15: i8, now: i64 },
    /// one absolute bound and the other relative to it with '@'
    Other { anchor: Arg, anchor_is_after: bool, neg: bool, units: Vec<(char, u32)>, cli_off15: i8, now: i64 },
    /// a value that must be rejected: (-a value, -b value)
    Reject { a: Option<String>, b: Option<String>, why: String },
}

fn unambiguous() -> Vec<(String, i32)> {
    tz_table().iter().filter(|(k, v)| v.is_some() && k.chars().all(|c| c.is_ascii_uppercase())).map(|(k, v)| (k.clone(), v.unwrap())).collect()
}
fn ambiguous() -> Vec<String> {
    tz_table().iter().filter(|(k, v)| v.is_none() && k.chars().all(|c| c.is_ascii_uppercase())).map(|(k, _)| k.clone()).collect()
}

pub fn units_secs(units: &[(char, u32)]) -> i64 {
    // a repeated unit: the last one wins (regex capture semantics, as the project's own tests show)
    let mut last: std::collections::BTreeMap<char, i64> = Default::default();
    for (u, n) in units {
        last.insert(*u, *n as i64);
    }
    last.iter()
        .map(|(u, n)| {
            n * match u {
                'w' => 604800,
                'd' => 86400,
                'h' => 3600,
                'm' => 60,
                _ => 1,
            }
        })
        .sum()
}

pub fn units_text(units: &[(char, u32)]) -> String {
    units.iter().map(|(u, n)| format!("{}{}", n, u)).collect()
}

/// (argument text, expected instant in ns)
pub fn render_arg(arg: &Arg, cli_off: i32, now: i64) -> (String, i128) {
    match arg {
        Arg::Abs(a) => {
            let (ztext, off): (String, i32) = match &a.zone {
                ZoneSp::None => (String::new(), cli_off),
                ZoneSp::NoColon(o) => (dt::off_nocolon(*o as i32 * 900), *o as i32 * 900),
                ZoneSp::Colon(o) => (dt::off_colon(*o as i32 * 900), *o as i32 * 900),
                ZoneSp::Hh(o) => {
                    let off = (*o as i32 * 900) / 3600 * 3600;
                    (dt::off_hh(off), off)
                }
                ZoneSp::Named(i) => {
                    let u = unambiguous();
                    let e = &u[*i as usize % u.len()];
                    (e.0.clone(), e.1)
                }
            };
            let us = match a.frac {
                0 => 0,
                3 => a.us - a.us % 1000,
                _ => a.us,
            };
            let (y, mo, d) = dt::civil_from_days(a.day as i64);
            let c = dt::Civil { y, mo, d, h: a.sod / 3600, mi: a.sod % 3600 / 60, s: a.sod % 60, ns: us * 1000, off, wd: 0 };
            let inst = dt::instant(y, mo, d, c.h, c.mi, c.s, us * 1000, off);
            let base = match a.shape % 4 {
                0 => "%Y%m%dT%H%M%S",
                1 => "%Y-%m-%d %H:%M:%S",
                2 => "%Y-%m-%dT%H:%M:%S",
                _ => "%Y/%m/%d %H:%M:%S",
            };
            let mut s = dt::strftime(&c, inst, base);
            match a.frac {
                3 => s.push_str(&format!(".{:03}", us / 1000)),
                6 => s.push_str(&format!(".{:06}", us)),
                _ => {}
            }
            if !ztext.is_empty() {
                let space = match a.shape % 4 {
                    0 => false,
                    2 => a.space,
                    _ => true,
                };
                if space {
                    s.push(' ');
                }
                s.push_str(&ztext);
            }
            (s, inst)
        }
        Arg::Date { shape, day } => {
            let (y, mo, d) = dt::civil_from_days(*day as i64);
            let s = match shape % 3 {
                0 => format!("{:04}{:02}{:02}", y, mo, d),
                1 => format!("{:04}-{:02}-{:02}", y, mo, d),
                _ => format!("{:04}/{:02}/{:02}", y, mo, d),
            };
            (s, dt::instant(y, mo, d, 0, 0, 0, 0, cli_off))
        }
        Arg::Epoch { secs } => (format!("+{}", secs), *secs as i128 * 1_000_000_000),
        Arg::Rel { neg, units } => {
            let d = units_secs(units);
            let t = if *neg { now - d } else { now + d };
            (format!("{}{}", if *neg { "-" } else { "+" }, units_text(units)), t as i128 * 1_000_000_000)
        }
    }
}

fn probe_log(x_ns: i128) -> (Vec<u8>, Vec<i128>) {
    let ts = [x_ns - 1_000_000_000, x_ns - 1000, x_ns, x_ns + 1000, x_ns + 1_000_000_000];
    let mut out = vec![];
    for (i, t) in ts.iter().enumerate() {
        let c = dt::civil(*t, 0);
        out.extend_from_slice(dt::strftime(&c, *t, "%Y-%m-%dT%H:%M:%S.%6f+00:00").as_bytes());
        out.extend_from_slice(format!(" #p{} probe\n", crate::textgen::letters(i)).as_bytes());
    }
    (out, ts.to_vec())
}

fn summary_bound(stderr: &str, label: &str) -> Option<i64> {
    for l in stderr.lines() {
        if l.starts_with(label) {
            let a = l.find('(')?;
            let b = l.find(')')?;
            let s = &l[a + 1..b];
            let y: i64 = s.get(0..4)?.parse().ok()?;
            let mo: u32 = s.get(5..7)?.parse().ok()?;
            let d: u32 = s.get(8..10)?.parse().ok()?;
            let h: u32 = s.get(11..13)?.parse().ok()?;
            let mi: u32 = s.get(14..16)?.parse().ok()?;
            let se: u32 = s.get(17..19)?.parse().ok()?;
            return Some((dt::instant(y, mo, d, h, mi, se, 0, 0) / 1_000_000_000) as i64);
        }
    }
    None
}

fn in_probe_range(x: i128) -> bool {
    // the probe log needs timestamps with years 1970..2099
    x > 100_000_000i128 * 1_000_000_000 && x < 4_000_000_000i128 * 1_000_000_000
}

fn abs_strategy() -> BoxedStrategy<Abs> {
    let zone = prop_oneof![
        3 => Just(ZoneSp::None),
        2 => (-48i8..=56).prop_map(ZoneSp::NoColon),
        2 => (-48i8..=56).prop_map(ZoneSp::Colon),
        1 => (-12i8..=14).prop_map(|h| ZoneSp::Hh(h * 4)),
        2 => any::<u16>().prop_map(ZoneSp::Named),
    ];
    (0u8..4, prop::sample::select(vec![0u8, 3, 6]), zone, any::<bool>(), 400u32..47000, prop_oneof![4 => 0u32..86400, 1 => Just(0u32), 1 => Just(86399u32)], prop_oneof![3 => 0u32..1_000_000, 1 => Just(0u32), 1 => Just(999_999u32)])
        .prop_map(|(shape, frac, zone, space, day, sod, us)| Abs { shape, frac, zone, space, day, sod, us })
        .boxed()
}

fn units_strategy() -> BoxedStrategy<Vec<(char, u32)>> {
    (prop::sample::subsequence(vec!['w', 'd', 'h', 'm', 's'], 1..=5), prop::collection::vec(prop_oneof![3 => 0u32..10, 2 => 10u32..500, 1 => 500u32..5000], 5), any::<u64>())
        .prop_map(|(us, ns, shuffle)| {
            let mut v: Vec<(char, u32)> = us.into_iter().zip(ns.into_iter()).collect();
            // deterministic shuffle
            let mut s = shuffle | 1;
            for i in (1..v.len()).rev() {
                s ^= s << 13;
                s ^= s >> 7;
                s ^= s << 17;
                v.swap(i, (s % (i as u64 + 1)) as usize);
            }
            v
        })
        .boxed()
}

impl Property for C14 {
    type Case = Case;
    fn id(&self) -> &'static str {
        "C14"
    }
    fn rule(&self) -> String {
        "case kinds. One: a single -a or -b value from the documented grammar: 4 date-time shapes x fraction {none,3,6} x zone {none, +hhmm, +hh:mm, +hh, every unambiguous upper-case name} x spacing variants; 3 bare-date shapes; '+epoch'; relative '+/-' followed by any non-empty subset and order of Nw Nd Nh Nm Ns with multi-digit counts (now fixed through the S4_VERIF_NOW hook); under -t in 15-minute steps. Other: one absolute bound and the other given as '@+/-...' relative to it. Reject: certainly-invalid values (month 13, day 00/32, hour 25, minute 60, garbage, unknown zone, every ambiguous zone name; near misses: any valid date-time shape x fraction or bare date followed, attached or spaced, by an ambiguous or unknown zone name in either letter case; both bounds '@', '@' without other bound, after > before: fixed pairs, generated pairs in one zone spelling that differ by 1 us..5 s with 3/6-digit fractions, and generated pairs in independent zone spellings ordered by instant, not by wall-clock text). oracle: independent resolution => expected instant, observed (a) in the `Datetime filter -a/-b` summary lines (second resolution) and (b) to the microsecond through a probe log with messages at X-1s, X-1us, X, X+1us, X+1s and the inclusive window semantics; rejections: non-zero exit status and empty stdout. non-trivial = zone present or fraction present or relative form; distinct = hash(case).".into()
    }
    fn assumptions(&self) -> Vec<String> {
        vec!["`now` is fixed with the S4_VERIF_NOW hook (guard --cfg s4_verif)".into(), "a repeated unit in a relative value keeps its last occurrence (documented by the project's unit tests)".into()]
    }
    fn cases(&self, tier: Tier) -> u32 {
        tier.pick(1200, 25000)
    }
    fn probes(&self, _tier: Tier) -> Vec<(String, Case)> {
        let mut v = vec![];
        for (i, n) in ambiguous().into_iter().enumerate() {
            v.push((format!("ambiguous-zone-{}", n), Case::Reject { a: Some(format!("2020-01-02 03:04:05 {}", n)), b: None, why: format!("ambiguous zone name {}", n) }));
            if i > 40 {
                break;
            }
        }
        v
    }
    fn strategy(&self, _tier: Tier) -> BoxedStrategy<Case> {
        let arg = prop_oneof![
            6 => abs_strategy().prop_map(Arg::Abs),
            1 => (0u8..3, 400u32..47000).prop_map(|(shape, day)| Arg::Date { shape, day }),
            1 => (900_000_000i64..3_900_000_000).prop_map(|secs| Arg::Epoch { secs }),
            3 => (any::<bool>(), units_strategy()).prop_map(|(neg, units)| Arg::Rel { neg, units }),
        ];
        let now = 1_000_000_000i64..3_000_000_000;
        let one = (arg, any::<bool>(), -48i8..=56, now.clone()).prop_map(|(arg, is_after, cli_off15, now)| Case::One { arg, is_after, cli_off15, now });
        let anchor = prop_oneof![5 => abs_strategy().prop_map(Arg::Abs), 1 => (0u8..3, 400u32..47000).prop_map(|(shape, day)| Arg::Date { shape, day })];
        let other = (anchor, any::<bool>(), units_strategy(), -48i8..=56, now).prop_map(|(anchor, anchor_is_after, units, cli_off15, now)| {
            // the relative bound must lie on the correct side: -a X -b @+D  /  -a @-D -b Y
            Case::Other { anchor, anchor_is_after, neg: !anchor_is_after, units, cli_off15, now }
        });
        let bad = prop::sample::select(vec![
            (Some("2020-13-02 03:04:05"), None, "month 13"),
            (Some("2020-01-00 03:04:05"), None, "day 00"),
            (Some("2020-01-32T03:04:05"), None, "day 32"),
            (Some("20200102T250405"), None, "hour 25"),
            (Some("2020/01/02 03:60:05"), None, "minute 60"),
            (Some("yesterday"), None, "garbage"),
            (Some("2020-01-02 03:04:05 XYZ"), None, "unknown zone"),
            (Some("20200102T030405QQQ"), None, "unknown zone"),
            (Some("@+1d"), Some("@+2d"), "both bounds relative to the other"),
            (Some("@+1d"), None, "@ without other bound"),
            (None, Some("@-1d"), "@ without other bound"),
            (Some("2020-01-03"), Some("2020-01-02"), "after > before"),
            (Some("20200102T030405"), Some("20200102T030404"), "after > before"),
            (Some("2020-02-30"), None, "day 30 in February"),
            (Some("12345"), None, "not a pattern"),
            (Some(""), None, "empty"),
            (Some("foo-5mbar"), None, "garbage around a relative offset"),
            (Some("abc+1d"), None, "garbage before a relative offset"),
            (Some("+1dx"), None, "garbage after a relative offset"),
            (Some("2020-01-02T03:04:05-5m"), None, "date-time followed by a relative offset"),
            (Some("1971-02-05mst"), None, "date followed by an ambiguous zone that contains a relative offset"),
            (None, Some("+-1d"), "two signs"),
            (None, Some("+d"), "unit without count"),
            (None, Some("+1x"), "unknown unit"),
            (Some("2020-01-01"), Some("@@+1d"), "two @"),
        ])
        .prop_map(|(a, b, why)| Case::Reject { a: a.map(|s| s.to_string()), b: b.map(|s| s.to_string()), why: why.to_string() });
        // near misses built from the valid grammar: a valid date-time or bare date followed (attached or after a space)
        // by an ambiguous or unknown zone name, in either letter case
        let base = prop_oneof![
            5 => abs_strategy().prop_map(|mut a| {
                a.zone = ZoneSp::None;
                Arg::Abs(a)
            }),
            1 => (0u8..3, 400u32..47000).prop_map(|(shape, day)| Arg::Date { shape, day }),
        ];
        let nearmiss = (base, any::<u16>(), any::<bool>(), any::<bool>(), any::<bool>(), 0u8..8).prop_map(|(arg, ni, is_after, lower, attach, unk)| {
            let (mut text, _) = render_arg(&arg, 0, 0);
            let amb = ambiguous();
            let (mut name, why) = if unk == 0 { (["QQQ", "XYZ", "FOOO", "ZZT"][ni as usize % 4].to_string(), "unknown zone name") } else { (amb[ni as usize % amb.len()].clone(), "ambiguous zone name") };
            if lower && tz_table().iter().any(|(k, v)| v.is_none() && *k == name.to_ascii_lowercase()) {
                name = name.to_ascii_lowercase();
            }
            if !attach {
                text.push(' ');
            }
            text.push_str(&name);
            let why = format!("{} {} after a valid {}", why, if attach { "attached" } else { "spaced" }, if matches!(arg, Arg::Date { .. }) { "date" } else { "date-time" });
            if is_after {
                Case::Reject { a: Some(text), b: None, why }
            } else {
                Case::Reject { a: None, b: Some(text), why }
            }
        });
        // inverted windows built from the valid grammar: (i) two bounds in one zone spelling whose instants differ by a
        // sub-second to a-few-seconds amount, the later one given as -a; (ii) two independent bounds of one civil day in
        // independent zone spellings, the later *instant* given as -a (its wall-clock text may well be the earlier one)
        let inv_close = (abs_strategy(), prop_oneof![3 => 1u32..1_000_000, 1 => Just(1u32), 1 => Just(1000u32), 1 => Just(999_999u32), 1 => 1_000_000u32..5_000_000], any::<bool>()).prop_map(|(b0, delta, three)| {
            let mut b = b0;
            if b.day < 401 || b.day > 46990 {
                b.day = 20000;
            }
            let mut a = b.clone();
            a.frac = if three && delta % 1000 == 0 && b.us % 1000 == 0 { 3 } else { 6 };
            if b.frac == 0 {
                b.us = 0;
                a.us = 0;
            } else if b.frac == 3 {
                b.us -= b.us % 1000;
                a.us = b.us;
            }
            let tot = a.us as u64 + delta as u64;
            a.us = (tot % 1_000_000) as u32;
            let sod = a.sod as u64 + tot / 1_000_000;
            a.sod = (sod % 86400) as u32;
            a.day += (sod / 86400) as u32;
            (Arg::Abs(a), Arg::Abs(b), "after > before by a small amount")
        });
        let inv_zones = (abs_strategy(), abs_strategy()).prop_map(|(a, mut b)| {
            b.day = a.day;
            (Arg::Abs(a), Arg::Abs(b), "after > before across zone spellings")
        });
        let inverted = prop_oneof![inv_close, inv_zones].prop_map(|(a, b, why)| {
            let (ta, xa) = render_arg(&a, 0, 0);
            let (tb, xb) = render_arg(&b, 0, 0);
            if xa > xb {
                Case::Reject { a: Some(ta), b: Some(tb), why: why.to_string() }
            } else if xb > xa {
                Case::Reject { a: Some(tb), b: Some(ta), why: why.to_string() }
            } else {
                // equal instants are a valid (one-instant) window; keep the case useful: a plainly inverted pair
                Case::Reject { a: Some("2020-01-03".into()), b: Some("2020-01-02".into()), why: "after > before".into() }
            }
        });
        prop_oneof![8 => one, 3 => other, 1 => bad, 2 => nearmiss, 2 => inverted].boxed()
    }
    fn exec(&self, case: &Case, _ctx: &Ctx) -> Outcome {
        let sc = Scratch::new();
        match case {
            Case::Reject { a, b, why } => {
                let (log, _) = probe_log(1_577_934_245_000_000_000);
                let f = sc.write("p.log", &log);
                let mut args = osargs(["--color", "never", "-t=+00:00"]);
                if let Some(a) = a {
                    args.push(format!("--dt-after={}", a).into());
                }
                if let Some(b) = b {
                    args.push(format!("--dt-before={}", b).into());
                }
                args.push(f.into());
                let out = run_s4(RunSpec { args, tmpdir: Some(&sc.dir), ..Default::default() });
                if out.timed_out {
                    return Outcome::inconclusive("timeout".into());
                }
                if out.signal.is_some() || out.panicked() {
                    return Outcome::fail("crash", format!("a={:?} b={:?}: signal={:?} stderr={}", a, b, out.signal, out.stderr_str()));
                }
                if out.status == Some(0) || !out.stdout.is_empty() {
                    return Outcome::fail("accepted-invalid", format!("{}: -a {:?} -b {:?} exit status {:?}, stdout {} bytes", why, a, b, out.status, out.stdout.len()));
                }
                Outcome::pass(true, hash_debug(case)).class("reject").class(&format!("reject:{}", if why.starts_with("after >") { why.as_str() } else { why.split(' ').next().unwrap_or("") }))
            }
            Case::One { arg, is_after, cli_off15, now } => {
                let cli_off = *cli_off15 as i32 * 900;
                let (text, x) = render_arg(arg, cli_off, *now);
                self.run_bounds(&sc, case, if *is_after { Some((text, x)) } else { None }, if !*is_after { Some((text_clone(arg, cli_off, *now), x)) } else { None }, cli_off, *now)
            }
            Case::Other { anchor, anchor_is_after, neg, units, cli_off15, now } => {
                let cli_off = *cli_off15 as i32 * 900;
                let (atext, ax) = render_arg(anchor, cli_off, *now);
                let d = units_secs(units) as i128 * 1_000_000_000;
                let rx = if *neg { ax - d } else { ax + d };
                let rtext = format!("@{}{}", if *neg { "-" } else { "+" }, units_text(units));
                let (a, b) = if *anchor_is_after { (Some((atext, ax)), Some((rtext, rx))) } else { (Some((rtext, rx)), Some((atext, ax))) };
                self.run_bounds(&sc, case, a, b, cli_off, *now)
            }
        }
    }
}

fn text_clone(arg: &Arg, cli_off: i32, now: i64) -> String {
    render_arg(arg, cli_off, now).0
}

impl C14 {
    fn run_bounds(&self, sc: &Scratch, case: &Case, a: Option<(String, i128)>, b: Option<(String, i128)>, cli_off: i32, now: i64) -> Outcome {
        // probe around each bound separately
        let mut evals = 0;
        for (which, bound) in [("a", &a), ("b", &b)] {
            let (_, x) = match bound {
                Some(v) => v,
                None => continue,
            };
            if !in_probe_range(*x) {
                continue;
            }
            // the other bound (if any) must not cut the probe: probes lie within +-1s of x
            let (log, ts) = probe_log(*x);
            let f = sc.write(&format!("probe-{}.log", which), &log);
            let mut args = osargs(["--color", "never", "--summary"]);
            args.push(format!("-t={}", dt::off_colon(cli_off)).into());
            if let Some((t, _)) = &a {
                args.push(format!("--dt-after={}", t).into());
            }
            if let Some((t, _)) = &b {
                args.push(format!("--dt-before={}", t).into());
            }
            args.push(f.into());
            let out = run_s4(RunSpec { args: args.clone(), tmpdir: Some(&sc.dir), env: vec![("S4_VERIF_NOW".into(), now.to_string())], ..Default::default() });
            evals += 1;
            if out.timed_out {
                return Outcome::inconclusive("timeout".into());
            }
            if out.signal.is_some() || out.panicked() {
                return Outcome::fail("crash", format!("args={:?} signal={:?} stderr={}", args, out.signal, out.stderr_str()));
            }
            let ctx = format!("-a {:?} -b {:?} -t {} now={}", a.as_ref().map(|v| &v.0), b.as_ref().map(|v| &v.0), dt::off_colon(cli_off), now);
            if out.status != Some(0) {
                return Outcome::fail("rejected-valid", format!("{}: exit status {:?} stderr={}", ctx, out.status, crate::bytes::esc_trunc(&out.stderr, 300)));
            }
            let lo = a.as_ref().map(|v| v.1);
            let hi = b.as_ref().map(|v| v.1);
            let mut want = vec![];
            let mut off = 0;
            for t in &ts {
                let line_end = log[off..].iter().position(|&c| c == b'\n').unwrap() + off + 1;
                if lo.map(|l| l <= *t).unwrap_or(true) && hi.map(|h| *t <= h).unwrap_or(true) {
                    want.extend_from_slice(&log[off..line_end]);
                }
                off = line_end;
            }
            if out.stdout != want {
                return Outcome::fail("bound", format!("{}: expected bounds a={:?} b={:?} (ns); probe around {} printed {:?}, expected {:?}", ctx, lo, hi, which, crate::bytes::esc_trunc(&out.stdout, 400), crate::bytes::esc_trunc(&want, 400)));
            }
            let err = out.stderr_str();
            for (lab, bnd) in [("Datetime filter -a", &a), ("Datetime filter -b", &b)] {
                let got = summary_bound(&err, lab);
                let wantb = bnd.as_ref().map(|v| v.1.div_euclid(1_000_000_000) as i64);
                if got != wantb {
                    return Outcome::fail("summary-bound", format!("{}: {} shows {:?}, expected {:?}", ctx, lab, got, wantb));
                }
            }
        }
        if evals == 0 {
            return Outcome::discard("bound outside the probe-able range");
        }
        let (zone, frac, rel, at) = match case {
            Case::One { arg, .. } => (matches!(arg, Arg::Abs(Abs { zone, .. }) if *zone != ZoneSp::None), matches!(arg, Arg::Abs(Abs { frac, .. }) if *frac > 0), matches!(arg, Arg::Rel { .. }), false),
            Case::Other { anchor, .. } => (matches!(anchor, Arg::Abs(Abs { zone, .. }) if *zone != ZoneSp::None), false, false, true),
            _ => (false, false, false, false),
        };
        let mut o = Outcome::pass(zone || frac || rel || at, hash_debug(case));
        o.evals = evals;
        if zone {
            o = o.class("zone");
        }
        if frac {
            o = o.class("fraction");
        }
        if rel {
            o = o.class("relative-to-now");
        }
        if at {
            o = o.class("relative-to-other(@)");
        }
        match case {
            Case::One { arg: Arg::Abs(ab), .. } => {
                o = o.class(&format!("shape:{}", ab.shape % 4));
                if let ZoneSp::Named(_) = ab.zone {
                    o = o.class("zone:named");
                }
            }
            Case::One { arg: Arg::Date { .. }, .. } => o = o.class("bare-date"),
            Case::One { arg: Arg::Epoch { .. }, .. } => o = o.class("+epoch"),
            _ => {}
        }
        o.with_sample(json!({"a": a.as_ref().map(|v| v.0.clone()), "b": b.as_ref().map(|v| v.0.clone()), "tz": dt::off_colon(cli_off), "now": now,
            "expected_a_ns": a.as_ref().map(|v| v.1.to_string()), "expected_b_ns": b.as_ref().map(|v| v.1.to_string())}))
    }
}
