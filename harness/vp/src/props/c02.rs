//! C02 — every message of a text log is printed exactly once, byte for byte.

use crate::bytes::diff_msg;
use crate::engine::*;
use crate::s4run::*;
use crate::textgen::*;
use proptest::prelude::*;
use serde::{Deserialize, Serialize};
use serde_json::json;

pub struct C02;

#[derive(Clone, Debug, Serialize, Deserialize)]
pub struct Case {
    pub log: TextLog,
    /// block sizes to read the file with
    pub bss: Vec<u64>,
    /// in-process twin: drive `SyslogProcessor` through the stage sequence of `exec_syslogprocessor` instead of
    /// running the binary (cheap, so many more cases)
    #[serde(default)]
    pub inproc: bool,
}

/// read a plain text file through SyslogProcessor exactly like `exec_syslogprocessor` does and return, per message,
/// (fileoffset_begin, bytes)
pub fn inproc_messages(path: &str, bs: u64) -> Result<Option<Vec<(u64, Vec<u8>)>>, String> {
    use s4lib::common::{FileType, FileTypeArchive, FileTypeTextEncoding, ResultS3};
    use s4lib::readers::syslogprocessor::{FileProcessingResultBlockZero, SyslogProcessor};
    let ft = FileType::Text { archival_type: FileTypeArchive::Normal, encoding_type: FileTypeTextEncoding::Utf8Ascii };
    let tz = chrono::FixedOffset::east_opt(0).unwrap();
    let mut sp = SyslogProcessor::new(path.to_string(), ft, bs, tz, None, None).map_err(|e| format!("SyslogProcessor::new: {}", e))?;
    let _ = sp.process_stage0_valid_file_check();
    if !matches!(sp.process_stage1_blockzero_analysis(), FileProcessingResultBlockZero::FileOk) {
        return Ok(None);
    }
    if !matches!(sp.process_stage2_find_dt(&None), FileProcessingResultBlockZero::FileOk) {
        return Ok(None);
    }
    let mut out = vec![];
    let mut fo1: u64 = 0;
    let mut first = true;
    let mut last: Option<s4lib::data::sysline::SyslineP> = None;
    loop {
        match sp.find_sysline_between_datetime_filters(fo1) {
            ResultS3::Found((fo, slp)) => {
                out.push((slp.fileoffset_begin(), slp.verif_bytes()));
                let is_last = sp.is_sysline_last(&slp);
                fo1 = fo;
                if first {
                    first = false;
                    if is_last {
                        break;
                    }
                    sp.process_stage3_stream_syslines();
                    last = Some(slp);
                    continue;
                }
                if is_last {
                    break;
                }
                if let Some(l) = last.take() {
                    sp.drop_data_try(&l);
                }
                last = Some(slp);
            }
            ResultS3::Done => break,
            ResultS3::Err(e) => return Err(format!("find_sysline_between_datetime_filters({}): {}", fo1, e)),
        }
        if out.len() > 100_000 {
            return Err("runaway".into());
        }
    }
    Ok(Some(out))
}

pub const SENTINEL: &str = "\u{1}<~SEP~>\u{2}";

fn r2spans(r: &Rendered) -> &Vec<(usize, usize)> {
    &r.spans
}

pub fn contains(h: &[u8], n: &[u8]) -> bool {
    h.windows(n.len()).any(|w| w == n)
}

/// does some line of the file cross a block boundary at block size bs
pub fn line_crosses(bytes: &[u8], bs: u64) -> bool {
    let mut start = 0usize;
    for (i, &b) in bytes.iter().enumerate() {
        if b == b'\n' || i + 1 == bytes.len() {
            if (start as u64) / bs != (i as u64) / bs {
                return true;
            }
            start = i + 1;
        }
    }
    false
}

impl Property for C02 {
    type Case = Case;
    fn id(&self) -> &'static str {
        "C02"
    }
    fn rule(&self) -> String {
        "case = generated text log (one of 10 timestamp notations, 0..40 messages, 0..3 continuation lines, byte classes ascii/utf8/binary incl. NUL, CR, 0x80-0xff, line lengths steered around multiples of the small block size, header lines, optional final newline) x 3 block sizes (65536, 64, generated 65..4096); oracle: stdout == file[first timestamped line..] (+\\n if missing) and, with a sentinel --separator, message boundaries == generator boundaries; 70% of the cases run the in-process twin instead (SyslogProcessor driven through the stage sequence of exec_syslogprocessor incl. drop_data_try; every message's file offset and bytes must equal the generator's spans), 30% the real binary; 15% of all cases are binary runs whose last message ends in a 900..2200-byte line with or without a final newline (sized around the 1024-byte stdout line buffer and the 2056-byte print buffer). non-trivial = >=2 messages and (a line crosses a block boundary at one of the sizes, or a multi-line message, or a non-ASCII/NUL byte); distinct = hash of (file bytes, block sizes). Files rejected by the block-zero heuristic (finding F6) are excluded by construction and counted under discarded_by_reason.".into()
    }
    fn assumptions(&self) -> Vec<String> {
        vec![
            "s4 built from /repo working tree without debug assertions (release semantics)".into(),
            "continuation lines and bodies never contain two adjacent ASCII digits, so they cannot parse as timestamps".into(),
            "files outside the block-zero acceptance heuristic are not in the domain (known finding F6, probed separately)".into(),
        ]
    }
    fn cases(&self, tier: Tier) -> u32 {
        tier.pick(2000, 20000)
    }
    fn inprocess(&self) -> bool {
        true
    }
    fn strategy(&self, tier: Tier) -> BoxedStrategy<Case> {
        let max_msgs = tier.pick(40, 120);
        (65u64..4096)
            .prop_flat_map(move |bs2| {
                let steer = prop::sample::select(vec![64usize, bs2 as usize]);
                (Just(bs2), steer)
            })
            .prop_flat_map(move |(bs2, steer)| {
                let bss = vec![65536u64, 64, bs2];
                let p = TextParams { max_msgs, steer_bs: steer, max_mult: 4, accept_bs: bss.clone(), ..TextParams::default() };
                (text_log(p), Just(bss))
            })
            .prop_flat_map(|(log, bss)| (Just(log), Just(bss), prop::bool::weighted(0.7), prop::option::weighted(0.15, (900usize..2200, any::<bool>()))))
            .prop_map(|(mut log, bss, mut inproc, tail)| {
                // tail shaping (binary runs): the last message gets a final line sized around the print path's buffers
                // (1024-byte stdout line buffer, 2056-byte print buffer), with or without a final newline
                if let (Some((len, nl)), Some(last)) = (tail, log.msgs.last_mut()) {
                    let line = crate::textgen::stretch(b"tail ", len);
                    if last.cont.is_empty() {
                        last.cont.push(crate::bytes::B(line));
                    } else {
                        *last.cont.last_mut().unwrap() = crate::bytes::B(line);
                    }
                    log.final_nl = nl;
                    inproc = false;
                }
                Case { log, bss, inproc }
            })
            .boxed()
    }
    fn probes(&self, _tier: Tier) -> Vec<(String, Case)> {
        use crate::bytes::B;
        let mk = |msgs: Vec<(i64, &str, Vec<&str>)>, final_nl: bool, bss: Vec<u64>| Case {
            log: TextLog {
                tmpl: 0,
                off: 3600,
                header: vec![],
                msgs: msgs.into_iter().map(|(t, b, c)| TMsg { t, body: B::from(b), cont: c.into_iter().map(B::from).collect() }).collect(),
                final_nl,
            },
            bss,
            inproc: false,
        };
        let t0 = 1_577_934_245_123_456_000i64;
        vec![
            ("empty-file".into(), mk(vec![], true, vec![65536, 64])),
            ("one-message".into(), mk(vec![(t0, " #a x", vec![])], true, vec![65536, 64])),
            ("no-final-newline".into(), mk(vec![(t0, " #a x", vec!["cont"]), (t0 + 1000, " #b y", vec![])], false, vec![65536, 64, 65])),
            ("blank-cont-lines".into(), mk(vec![(t0, " #a x", vec!["", "", "\r"]), (t0, " #b y", vec![""])], true, vec![65536, 64, 70])),
        ]
    }
    fn exec(&self, case: &Case, _ctx: &Ctx) -> Outcome {
        let r = case.log.render();
        if contains(&r.bytes, SENTINEL.as_bytes()) {
            return Outcome::discard("content contains sentinel");
        }
        if !case.log.msgs.is_empty() {
            for &bs in &case.bss {
                if !accepted_at(&r, case.log.header.len(), bs) {
                    return Outcome::discard("outside block-zero acceptance (F6)");
                }
            }
        }
        let sc = Scratch::new();
        let f = sc.write("a.log", &r.bytes);
        let mut expected: Vec<u8> = match r.spans.first() {
            Some(&(a, _)) => r.bytes[a..].to_vec(),
            None => vec![],
        };
        if !expected.is_empty() && expected.last() != Some(&b'\n') {
            expected.push(b'\n');
        }
        let mut expected_sep: Vec<u8> = vec![];
        for (i, &(a, b)) in r.spans.iter().enumerate() {
            expected_sep.extend_from_slice(&r.bytes[a..b]);
            expected_sep.extend_from_slice(SENTINEL.as_bytes());
            if i + 1 == r.spans.len() && r.bytes.last() != Some(&b'\n') {
                expected_sep.push(b'\n');
            }
        }
        let mut evals = 0;
        if case.inproc {
            let path = f.to_string_lossy().to_string();
            for &bs in &case.bss {
                evals += 1;
                let res = std::panic::catch_unwind(std::panic::AssertUnwindSafe(|| inproc_messages(&path, bs)));
                let msgs = match res {
                    Err(_) => return Outcome::fail("panic", format!("in-process bs={} tmpl={}: panic in SyslogProcessor", bs, case.log.tmpl().name)),
                    Ok(Err(e)) => return Outcome::fail("error", format!("in-process bs={}: {}", bs, e)),
                    Ok(Ok(None)) => {
                        if case.log.msgs.is_empty() {
                            continue;
                        }
                        return Outcome::fail("empty-output", format!("in-process bs={} tmpl={}: file predicted acceptable was rejected by block-zero analysis", bs, case.log.tmpl().name));
                    }
                    Ok(Ok(Some(m))) => m,
                };
                // boundaries and bytes must equal the generator's
                if msgs.len() != r2spans(&r).len() {
                    return Outcome::fail("boundaries", format!("in-process bs={} tmpl={}: {} messages, generator has {}", bs, case.log.tmpl().name, msgs.len(), r2spans(&r).len()));
                }
                for (k, ((fo, b), (a, e))) in msgs.iter().zip(r2spans(&r).iter()).enumerate() {
                    if *fo != *a as u64 || b[..] != r.bytes[*a..*e] {
                        return Outcome::fail("bytes", format!("in-process bs={} tmpl={}: message #{} at offset {} differs from generator span [{}..{}): {}", bs, case.log.tmpl().name, k, fo, a, e, diff_msg(b, &r.bytes[*a..*e])));
                    }
                }
            }
        }
        for &bs in &case.bss {
            if case.inproc {
                break;
            }
            for sep in [false, true] {
                let mut args = osargs(["--color", "never", "--blocksz"]);
                args.push(bs.to_string().into());
                args.push(case.log.tz_arg().into());
                if sep {
                    args.push("--separator".into());
                    args.push(SENTINEL.into());
                }
                args.push(f.clone().into());
                let out = run_s4(RunSpec { args, tmpdir: Some(&sc.dir), ..Default::default() });
                evals += 1;
                if out.timed_out {
                    return Outcome::inconclusive(format!("s4 timed out (bs={})", bs));
                }
                if !out.ok01() || out.panicked() {
                    return Outcome::fail("crash", format!("bs={} status={:?} signal={:?} stderr={}", bs, out.status, out.signal, out.stderr_str()));
                }
                let want = if sep { &expected_sep } else { &expected };
                if &out.stdout != want {
                    let sig = if out.stdout.is_empty() { "empty-output" } else if sep { "boundaries" } else { "bytes" };
                    return Outcome::fail(sig, format!("bs={} sep={} tmpl={} {}", bs, sep, case.log.tmpl().name, diff_msg(&out.stdout, want)));
                }
            }
        }
        let nmsg = case.log.msgs.len();
        let crosses = case.bss.iter().any(|&bs| line_crosses(&r.bytes, bs));
        let multi = case.log.msgs.iter().any(|m| !m.cont.is_empty());
        let nonascii = r.bytes.iter().any(|&b| b == 0 || b >= 0x80);
        let nontrivial = nmsg >= 2 && (crosses || multi || nonascii);
        let mut o = Outcome::pass(nontrivial, fnv(&r.bytes) ^ hash_debug(&case.bss));
        o.evals = evals;
        o = o.class(if case.inproc { "mode:in-process" } else { "mode:binary" });
        if crosses {
            o = o.class("line-crosses-block");
        }
        let maxline = r.bytes.split(|&b| b == b'\n').map(|l| l.len()).max().unwrap_or(0) as u64;
        if case.bss.iter().any(|&bs| maxline > 2 * bs) {
            o = o.class("line-spans>2-blocks");
        }
        if multi {
            o = o.class("multi-line-message");
        }
        if nonascii {
            o = o.class("non-ascii-or-NUL");
        }
        if r.bytes.contains(&b'\r') {
            o = o.class("CR");
        }
        if !case.log.final_nl && nmsg > 0 {
            o = o.class("no-final-newline");
        }
        if !case.log.header.is_empty() {
            o = o.class("header-lines");
        }
        if nmsg == 0 {
            o = o.class("zero-messages");
        }
        if case.bss.iter().any(|&bs| r.bytes.len() as u64 % bs == 0 && !r.bytes.is_empty()) {
            o = o.class("size-multiple-of-block");
        }
        o = o.class(&format!("tmpl:{}", case.log.tmpl().name));
        o.with_sample(json!({"tmpl": case.log.tmpl().name, "messages": nmsg, "file_bytes": r.bytes.len(), "block_sizes": case.bss,
            "head": crate::bytes::esc_trunc(&r.bytes, 160)}))
    }
}
