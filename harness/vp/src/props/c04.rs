//! C04 — timestamps are interpreted as the instant they denote.

use crate::bytes::esc_trunc;
use crate::dt::{self, Civil, MON3, MONLONG, WD3, WDLONG};
use crate::engine::*;
use crate::s4run::*;
use crate::sources::{split_sentinel, SENTINEL};
use proptest::prelude::*;
use serde::{Deserialize, Serialize};
use serde_json::json;

pub struct C04;

#[derive(Clone, Copy, Debug, PartialEq, Eq)]
pub enum Zk {
    /// notation has no zone: read in the -t zone
    None,
    /// numeric offset, spellings allowed: colon, nocolon, hh, Z(for 0), unicode minus
    Num { colon: bool, nocolon: bool, hh: bool, z: bool },
    /// named abbreviation from the project's table
    Named,
    /// always UTC by definition (epoch)
    Utc,
}

pub struct T4 {
    pub name: &'static str,
    pub family: &'static str,
    pub pre: &'static str,
    /// timestamp format: strftime subset + {F} fraction + {Z} zone + %-d unpadded day + %-H unpadded hour
    pub fmt: &'static str,
    pub post: &'static str,
    /// allowed numbers of fractional digits (0 = no fraction written)
    pub frac: &'static [u8],
    pub frac_sep: &'static str,
    pub zone: Zk,
    /// what precedes the zone text inside {Z}
    pub zone_lead: &'static str,
    /// granularity in seconds of the notation without fraction (60 for minute-only notations)
    pub gran: i64,
    /// epoch notation (instants limited to the documented epoch range)
    pub epoch: bool,
}

const ALLZ: Zk = Zk::Num { colon: true, nocolon: true, hh: true, z: true };
const F09: &[u8] = &[0, 1, 2, 3, 4, 5, 6, 7, 8, 9];
const F0: &[u8] = &[0];

pub const T4S: &[T4] = &[
    T4 { name: "iso8601-T", family: "RFC3339/ISO8601", pre: "", fmt: "%Y-%m-%dT%H:%M:%S{F}{Z}", post: " #", frac: F09, frac_sep: ".", zone: ALLZ, zone_lead: "", gran: 1, epoch: false },
    T4 { name: "iso8601-T-comma", family: "RFC3339/ISO8601", pre: "", fmt: "%Y-%m-%dT%H:%M:%S{F}{Z}", post: " #", frac: &[3, 6], frac_sep: ",", zone: ALLZ, zone_lead: "", gran: 1, epoch: false },
    T4 { name: "iso8601-T-notz", family: "RFC3339/ISO8601", pre: "", fmt: "%Y-%m-%dT%H:%M:%S{F}", post: " #", frac: F09, frac_sep: ".", zone: Zk::None, zone_lead: "", gran: 1, epoch: false },
    T4 { name: "iso-space", family: "RFC3339/ISO8601", pre: "", fmt: "%Y-%m-%d %H:%M:%S{F}{Z}", post: " #", frac: F09, frac_sep: ".", zone: Zk::Num { colon: true, nocolon: true, hh: false, z: false }, zone_lead: " ", gran: 1, epoch: false },
    T4 { name: "iso-space-notz", family: "RFC3339/ISO8601", pre: "", fmt: "%Y-%m-%d %H:%M:%S{F}", post: " #", frac: F09, frac_sep: ".", zone: Zk::None, zone_lead: "", gran: 1, epoch: false },
    T4 { name: "iso-space-named", family: "RFC3339/ISO8601", pre: "", fmt: "%Y-%m-%d %H:%M:%S{F}{Z}", post: " #", frac: &[0, 3, 6], frac_sep: ".", zone: Zk::Named, zone_lead: " ", gran: 1, epoch: false },
    T4 { name: "iso-slash", family: "RFC3339/ISO8601", pre: "", fmt: "%Y/%m/%d %H:%M:%S{F}{Z}", post: " #", frac: &[0, 3, 6], frac_sep: ".", zone: Zk::Num { colon: true, nocolon: true, hh: false, z: false }, zone_lead: " ", gran: 1, epoch: false },
    T4 { name: "iso-slash-notz", family: "RFC3339/ISO8601", pre: "", fmt: "%Y/%m/%d %H:%M:%S", post: " [error] #", frac: F0, frac_sep: ".", zone: Zk::None, zone_lead: "", gran: 1, epoch: false },
    T4 { name: "iso-basic-T", family: "RFC3339/ISO8601", pre: "", fmt: "%Y%m%dT%H%M%S{F}{Z}", post: " #", frac: &[0, 3, 6], frac_sep: ".", zone: Zk::Num { colon: true, nocolon: true, hh: false, z: false }, zone_lead: " ", gran: 1, epoch: false },
    T4 { name: "iso-basic-T-notz", family: "RFC3339/ISO8601", pre: "", fmt: "%Y%m%dT%H%M%S", post: " #", frac: F0, frac_sep: ".", zone: Zk::None, zone_lead: "", gran: 1, epoch: false },
    T4 { name: "iso-bracket-comma", family: "RFC3339/ISO8601", pre: "[", fmt: "%Y-%m-%d %H:%M:%S{F}", post: "] #", frac: &[3], frac_sep: ",", zone: Zk::None, zone_lead: "", gran: 1, epoch: false },
    T4 { name: "iso-level-prefix", family: "RFC3339/ISO8601", pre: "INFO ", fmt: "%Y-%m-%d %H:%M:%S{F}", post: " #", frac: &[3], frac_sep: ",", zone: Zk::None, zone_lead: "", gran: 1, epoch: false },
    T4 { name: "iso-host-prefix", family: "RFC3339/ISO8601", pre: "host app[12]: ", fmt: "%Y-%m-%d %H:%M:%S", post: " #", frac: F0, frac_sep: ".", zone: Zk::None, zone_lead: "", gran: 1, epoch: false },
    T4 { name: "rfc5424", family: "RFC5424", pre: "<14>1 ", fmt: "%Y-%m-%dT%H:%M:%S{F}{Z}", post: " host app - - - #", frac: &[0, 3, 6], frac_sep: ".", zone: Zk::Num { colon: true, nocolon: false, hh: false, z: true }, zone_lead: "", gran: 1, epoch: false },
    T4 { name: "rfc2822", family: "RFC2822", pre: "", fmt: "%a, %d %b %Y %H:%M:%S{Z}", post: " #", frac: F0, frac_sep: ".", zone: Zk::Num { colon: false, nocolon: true, hh: false, z: false }, zone_lead: " ", gran: 1, epoch: false },
    T4 { name: "rfc2822-Date", family: "RFC2822", pre: "Date: ", fmt: "%a, %d %b %Y %H:%M:%S{Z}", post: " #", frac: F0, frac_sep: ".", zone: Zk::Num { colon: false, nocolon: true, hh: false, z: false }, zone_lead: " ", gran: 1, epoch: false },
    T4 { name: "rfc2822-dayunpadded", family: "RFC2822", pre: "", fmt: "%a, %-d %b %Y %H:%M:%S{Z}", post: " #", frac: F0, frac_sep: ".", zone: Zk::Num { colon: false, nocolon: true, hh: false, z: false }, zone_lead: " ", gran: 1, epoch: false },
    T4 { name: "ctime", family: "RFC3164+year", pre: "", fmt: "%a %b %e %H:%M:%S %Y", post: " #", frac: F0, frac_sep: ".", zone: Zk::None, zone_lead: "", gran: 1, epoch: false },
    T4 { name: "ctime-day0", family: "RFC3164+year", pre: "", fmt: "%a %b %d %H:%M:%S %Y", post: " #", frac: F0, frac_sep: ".", zone: Zk::None, zone_lead: "", gran: 1, epoch: false },
    T4 { name: "ctime-named", family: "RFC3164+year", pre: "", fmt: "%a %b %e %H:%M:%S{Z} %Y", post: " #", frac: F0, frac_sep: ".", zone: Zk::Named, zone_lead: " ", gran: 1, epoch: false },
    T4 { name: "syslog-year-first", family: "RFC3164+year", pre: "", fmt: "%Y %b %e %H:%M:%S", post: " host #", frac: F0, frac_sep: ".", zone: Zk::None, zone_lead: "", gran: 1, epoch: false },
    T4 { name: "syslog-year-last", family: "RFC3164+year", pre: "", fmt: "%b %e %H:%M:%S %Y", post: " host #", frac: F0, frac_sep: ".", zone: Zk::None, zone_lead: "", gran: 1, epoch: false },
    T4 { name: "syslog-year-first-longmonth", family: "RFC3164+year", pre: "", fmt: "%Y %B %-d %H:%M:%S", post: " host #", frac: F0, frac_sep: ".", zone: Zk::None, zone_lead: "", gran: 1, epoch: false },
    T4 { name: "apache-error", family: "ad-hoc", pre: "[", fmt: "%a %b %d %H:%M:%S{F} %Y", post: "] [core:notice] #", frac: &[6], frac_sep: ".", zone: Zk::None, zone_lead: "", gran: 1, epoch: false },
    T4 { name: "apache-access", family: "ad-hoc", pre: "127.0.0.1 - - [", fmt: "%d/%b/%Y:%H:%M:%S{Z}", post: "] \"GET / HTTP/1.1\" #", frac: F0, frac_sep: ".", zone: Zk::Num { colon: false, nocolon: true, hh: false, z: false }, zone_lead: " ", gran: 1, epoch: false },
    T4 { name: "tomcat", family: "ad-hoc", pre: "", fmt: "%d-%b-%Y %H:%M:%S{F}", post: " INFO #", frac: &[3], frac_sep: ".", zone: Zk::None, zone_lead: "", gran: 1, epoch: false },
    T4 { name: "pacman-minute", family: "ad-hoc", pre: "[", fmt: "%Y-%m-%d %H:%M", post: "] [PACMAN] #", frac: F0, frac_sep: ".", zone: Zk::None, zone_lead: "", gran: 60, epoch: false },
    T4 { name: "alpm", family: "ad-hoc", pre: "[", fmt: "%Y-%m-%dT%H:%M:%S{Z}", post: "] [ALPM] #", frac: F0, frac_sep: ".", zone: Zk::Num { colon: false, nocolon: true, hh: false, z: false }, zone_lead: "", gran: 1, epoch: false },
    T4 { name: "json-timestamp", family: "ad-hoc", pre: "{\"timestamp\":\"", fmt: "%Y-%m-%dT%H:%M:%S{F}{Z}", post: "\",\"m\":\"#", frac: &[0, 3, 6], frac_sep: ".", zone: Zk::Num { colon: true, nocolon: false, hh: false, z: true }, zone_lead: "", gran: 1, epoch: false },
    T4 { name: "logfmt-time", family: "ad-hoc", pre: "time=\"", fmt: "%Y-%m-%dT%H:%M:%S{Z}", post: "\" level=info #", frac: F0, frac_sep: ".", zone: Zk::Num { colon: true, nocolon: false, hh: false, z: true }, zone_lead: "", gran: 1, epoch: false },
    T4 { name: "epoch", family: "epoch", pre: "", fmt: "%s{F}", post: " #", frac: &[0, 3, 6, 9], frac_sep: ".", zone: Zk::Utc, zone_lead: "", gran: 1, epoch: true },
    T4 { name: "epoch-audit", family: "epoch", pre: "type=SYSCALL msg=audit(", fmt: "%s{F}", post: ":45): #", frac: &[3], frac_sep: ".", zone: Zk::Utc, zone_lead: "", gran: 1, epoch: true },
];

#[derive(Clone, Debug, Serialize, Deserialize, PartialEq, Eq)]
pub enum ZoneChoice {
    /// spelling: 0 colon, 1 nocolon, 2 hh, 3 Z (offset forced 0), 4 colon with U+2212 minus, 5 nocolon with U+2212
    Num { spelling: u8 },
    Named { idx: u16 },
    Unused,
}

#[derive(Clone, Debug, Serialize, Deserialize, PartialEq, Eq)]
pub struct Stamp {
    /// local civil day number since 1970-01-01 and second of day, and fraction in ns (before truncation to `frac` digits)
    pub day: u32,
    pub sod: u32,
    pub ns: u32,
    /// numeric offset in units of 15 minutes (-48..=56), used by Num zones
    pub off15: i8,
    /// named zone index for this line (added to the case's idx)
    pub zvar: u8,
}

#[derive(Clone, Debug, Serialize, Deserialize)]
pub struct Case {
    pub tmpl: usize,
    pub zone: ZoneChoice,
    pub frac: u8,
    /// 0 title case, 1 lower, 2 upper (month and weekday names)
    pub case_mode: u8,
    /// -t value in units of 15 minutes
    pub cli_off15: i8,
    pub stamps: Vec<Stamp>,
}

pub fn tz_table() -> &'static Vec<(String, Option<i32>)> {
    static T: std::sync::OnceLock<Vec<(String, Option<i32>)>> = std::sync::OnceLock::new();
    T.get_or_init(|| {
        let p = verif_root().join("data/tz_abbrev.json");
        let s = std::fs::read_to_string(&p).unwrap_or_else(|e| {
            eprintln!("vp: cannot read {}: {}", p.display(), e);
            std::process::exit(2)
        });
        let v: serde_json::Value = serde_json::from_str(&s).unwrap();
        let mut out = vec![];
        for (k, val) in v.as_object().unwrap() {
            let val = val.as_str().unwrap();
            let off = if val.is_empty() {
                None
            } else {
                let sign = if val.starts_with('-') { -1 } else { 1 };
                let h: i32 = val[1..3].parse().unwrap();
                let m: i32 = val[4..6].parse().unwrap();
                Some(sign * (h * 3600 + m * 60))
            };
            out.push((k.clone(), off));
        }
        out.sort();
        out
    })
}

fn apply_case(s: &str, mode: u8) -> String {
    match mode % 3 {
        0 => s.to_string(),
        1 => s.to_ascii_lowercase(),
        _ => s.to_ascii_uppercase(),
    }
}

/// render the timestamp text of one line; returns (text, expected instant ns) or None when outside the domain
pub fn render(t: &T4, case: &Case, st: &Stamp) -> Option<(String, i128)> {
    let cli_off = case.cli_off15 as i32 * 900;
    // zone text and effective offset
    let (ztext, off): (String, i32) = match (&t.zone, &case.zone) {
        (Zk::None, _) => (String::new(), cli_off),
        (Zk::Utc, _) => (String::new(), 0),
        (Zk::Num { .. }, ZoneChoice::Num { spelling }) => {
            let off = st.off15 as i32 * 900;
            match spelling {
                0 => (dt::off_colon(off), off),
                1 => (dt::off_nocolon(off), off),
                2 => {
                    let off = off - off % 3600;
                    (dt::off_hh(off), off)
                }
                3 => ("Z".to_string(), 0),
                4 => (dt::off_colon(off).replace('-', "\u{2212}"), off),
                _ => (dt::off_nocolon(off).replace('-', "\u{2212}"), off),
            }
        }
        (Zk::Named, ZoneChoice::Named { idx }) => {
            let tab = tz_table();
            // every spelling of the table: the upper-case names and their lower-case twins (both are separate table
            // entries in the program, so each must carry the right offset)
            let uppers: Vec<&(String, Option<i32>)> = tab.iter().filter(|(k, _)| k.chars().all(|c| c.is_ascii_uppercase()) || k.chars().all(|c| c.is_ascii_lowercase())).collect();
            let e = uppers[(*idx as usize + st.zvar as usize) % uppers.len()];
            (e.0.clone(), e.1.unwrap_or(cli_off))
        }
        _ => return None,
    };
    let frac_ns = if case.frac == 0 { 0 } else { st.ns - st.ns % 10u32.pow(9 - case.frac as u32) };
    let mut sod = st.sod;
    if t.gran == 60 {
        sod -= sod % 60;
    }
    let (y, mo, d) = dt::civil_from_days(st.day as i64);
    let c0 = Civil { y, mo, d, h: sod / 3600, mi: sod % 3600 / 60, s: sod % 60, ns: frac_ns, off, wd: ((st.day as i64 + 4) % 7) as u32 };
    let inst = dt::instant(y, mo, d, c0.h, c0.mi, c0.s, frac_ns, off);
    if t.epoch {
        let secs = inst.div_euclid(1_000_000_000);
        if !(900_000_000..2_999_999_999).contains(&secs) {
            return None;
        }
    }
    let ftext = if case.frac == 0 { String::new() } else { format!("{}{}", t.frac_sep, &format!("{:09}", frac_ns)[..case.frac as usize]) };
    // expand the format
    let mut out = String::new();
    let f = t.fmt;
    let b = f.as_bytes();
    let mut i = 0;
    while i < b.len() {
        if f[i..].starts_with("{F}") {
            out.push_str(&ftext);
            i += 3;
        } else if f[i..].starts_with("{Z}") {
            out.push_str(t.zone_lead);
            out.push_str(&ztext);
            i += 3;
        } else if f[i..].starts_with("%-d") {
            out.push_str(&format!("{}", d));
            i += 3;
        } else if f[i..].starts_with("%b") {
            out.push_str(&apply_case(MON3[(mo - 1) as usize], case.case_mode));
            i += 2;
        } else if f[i..].starts_with("%B") {
            out.push_str(&apply_case(MONLONG[(mo - 1) as usize], case.case_mode));
            i += 2;
        } else if f[i..].starts_with("%a") {
            out.push_str(&apply_case(WD3[c0.wd as usize], case.case_mode));
            i += 2;
        } else if f[i..].starts_with("%A") {
            out.push_str(&apply_case(WDLONG[c0.wd as usize], case.case_mode));
            i += 2;
        } else if f[i..].starts_with("%s") {
            out.push_str(&format!("{}", inst.div_euclid(1_000_000_000)));
            i += 2;
        } else if b[i] == b'%' {
            out.push_str(&dt::strftime(&c0, inst, &f[i..i + 2]));
            i += 2;
        } else {
            out.push(b[i] as char);
            i += 1;
        }
    }
    Some((out, inst))
}

fn stamp_strategy() -> BoxedStrategy<Stamp> {
    // days 1..47480 = 1970-01-02 .. 2099-12-30
    let day = prop_oneof![
        6 => 1u32..47481,
        2 => (1970i64..2100, prop::sample::select(vec![(1u32, 1u32), (1, 31), (2, 28), (3, 1), (4, 30), (6, 30), (12, 31), (12, 1), (10, 9), (9, 30)])).prop_map(|(y, (m, d))| dt::days_from_civil(y, m, d).clamp(1, 47480) as u32),
        1 => (0i64..33).prop_map(|k| dt::days_from_civil(1972 + 4 * k, 2, 29).clamp(1, 47480) as u32),
    ];
    let sod = prop_oneof![5 => 0u32..86400, 1 => Just(0u32), 1 => Just(86399u32), 1 => Just(43200u32), 1 => Just(3599u32), 1 => Just(36000u32)];
    let ns = prop_oneof![4 => 0u32..1_000_000_000, 1 => Just(0u32), 1 => Just(999_999_999u32), 1 => Just(1u32), 1 => Just(100_000_000u32), 1 => Just(1_000u32)];
    (day, sod, ns, -48i8..=56, any::<u8>()).prop_map(|(day, sod, ns, off15, zvar)| Stamp { day, sod, ns, off15, zvar }).boxed()
}

impl Property for C04 {
    type Case = Case;
    fn id(&self) -> &'static str {
        "C04"
    }
    fn rule(&self) -> String {
        format!("case = one of {} notation templates (families RFC3339/ISO8601 incl. basic and comma fractions, RFC5424, RFC3164+year in both year positions, RFC2822 with/without Date:, epoch 0/3/6/9 digits and audit, and documented ad-hoc ones: apache access/error, tomcat, pacman, ALPM, JSON, logfmt, level/host prefixes) x zone spelling (+hh:mm, +hhmm, +hh, Z, U+2212 minus; every upper-case abbreviation of the project's table: unambiguous => its offset, ambiguous => the -t value; zone-less => -t) x fraction digits 0..9 as the template allows x month/weekday case (title/lower/upper) x -t in 15-minute steps x 20..60 stamps per file (days stratified over 1970-01-02..2099-12-30 incl. month ends and every 29 Feb; seconds incl. 00:00:00 and 23:59:59; offsets -12:00..+14:00 in 15-minute steps, varying per line). oracle: `s4 -u -d '%s.%9f|'` prefix of every line == generated instant to the written nanosecond, and every line is its own message (sentinel separator). non-trivial = offset != 0 or fraction present or named month/zone; distinct = hash(case).", T4S.len())
    }
    fn assumptions(&self) -> Vec<String> {
        vec![
            "zone abbreviation table: frozen copy of the project's MAP_TZZ_TO_TZz in /verif/data/tz_abbrev.json".into(),
            "one notation variant per file (the program fixes one pattern per file from block zero)".into(),
            "hour 24, second 60 and epoch values outside 9\\d{8}|[12]\\d{9} are not generated".into(),
        ]
    }
    fn cases(&self, tier: Tier) -> u32 {
        tier.pick(1500, 30000)
    }
    fn strategy(&self, tier: Tier) -> BoxedStrategy<Case> {
        let maxl = tier.pick(60usize, 200);
        (0..T4S.len())
            .prop_flat_map(move |ti| {
                let t = &T4S[ti];
                let zone = match t.zone {
                    Zk::Num { colon, nocolon, hh, z } => {
                        let mut sp = vec![];
                        if colon {
                            sp.push(0u8);
                            sp.push(4);
                        }
                        if nocolon {
                            sp.push(1);
                            sp.push(5);
                        }
                        if hh {
                            sp.push(2);
                        }
                        if z {
                            sp.push(3);
                        }
                        prop::sample::select(sp).prop_map(|spelling| ZoneChoice::Num { spelling }).boxed()
                    }
                    Zk::Named => any::<u16>().prop_map(|idx| ZoneChoice::Named { idx }).boxed(),
                    _ => Just(ZoneChoice::Unused).boxed(),
                };
                (Just(ti), zone, prop::sample::select(t.frac.to_vec()), 0u8..3, -48i8..=56, prop::collection::vec(stamp_strategy(), 20..=maxl))
            })
            .prop_map(|(tmpl, zone, frac, case_mode, cli_off15, mut stamps)| {
                stamps.sort_by_key(|s| (s.day, s.sod, s.ns));
                Case { tmpl, zone, frac, case_mode, cli_off15, stamps }
            })
            .boxed()
    }
    fn exec(&self, case: &Case, _ctx: &Ctx) -> Outcome {
        let t = &T4S[case.tmpl % T4S.len()];
        let mut content = Vec::new();
        let mut expected: Vec<(i128, String)> = vec![];
        for (i, st) in case.stamps.iter().enumerate() {
            if let Some((ts, inst)) = render(t, case, st) {
                let line = format!("{}{}{}{} end", t.pre, ts, t.post, crate::textgen::letters(i));
                content.extend_from_slice(line.as_bytes());
                content.push(b'\n');
                expected.push((inst, line));
            }
        }
        if expected.len() < 3 {
            return Outcome::discard("fewer than 3 stamps inside the notation's range");
        }
        let sc = Scratch::new();
        let f = sc.write("a.log", &content);
        let tz = format!("-t={}", dt::off_colon(case.cli_off15 as i32 * 900));
        let mut args = osargs(["--color", "never", "-u", "-d", "%s.%9f|", "--prepend-separator", "", "--separator", SENTINEL]);
        args.push(tz.clone().into());
        args.push(f.into());
        let out = run_s4(RunSpec { args, tmpdir: Some(&sc.dir), ..Default::default() });
        if out.timed_out {
            return Outcome::inconclusive("timeout".into());
        }
        if !out.ok01() || out.panicked() {
            return Outcome::fail("crash", format!("status={:?} signal={:?} stderr={}", out.status, out.signal, out.stderr_str()));
        }
        let msgs = split_sentinel(&out.stdout);
        let ctx = || format!("template={} zone={:?} frac={} case_mode={} {} first_line={:?}", t.name, case.zone, case.frac, case.case_mode, tz, esc_trunc(expected[0].1.as_bytes(), 120));
        if msgs.len() != expected.len() {
            let sig = if msgs.is_empty() { "not-parsed" } else { "message-count" };
            return Outcome::fail(sig, format!("{}: printed {} messages, expected {} (each line is its own message)", ctx(), msgs.len(), expected.len()));
        }
        for (k, (m, (inst, line))) in msgs.iter().zip(expected.iter()).enumerate() {
            let ms = String::from_utf8_lossy(m);
            let bar = match ms.find('|') {
                Some(b) => b,
                None => return Outcome::fail("format", format!("{}: message {} has no datetime prefix: {:?}", ctx(), k, esc_trunc(m, 120))),
            };
            let want = format!("{}.{:09}", inst.div_euclid(1_000_000_000), inst.rem_euclid(1_000_000_000));
            if ms[..bar] != want || ms[bar + 1..].trim_end_matches('\n') != line.as_str() {
                return Outcome::fail("instant", format!("{}: line {:?} attributed {} expected {}", ctx(), line, &ms[..bar], want));
            }
        }
        let any_off = case.stamps.iter().any(|s| s.off15 != 0) && matches!(t.zone, Zk::Num { .. }) || case.cli_off15 != 0 && matches!(t.zone, Zk::None);
        let named_month = t.fmt.contains("%b") || t.fmt.contains("%B");
        let nontrivial = any_off || case.frac > 0 || named_month || matches!(t.zone, Zk::Named);
        let mut o = Outcome::pass(nontrivial, hash_debug(case));
        o.evals = expected.len() as u64;
        o = o.class(&format!("family:{}", t.family)).class(&format!("tmpl:{}", t.name)).class(&format!("frac:{}", case.frac));
        match &case.zone {
            ZoneChoice::Num { spelling } => o = o.class(&format!("zone-spelling:{}", ["+hh:mm", "+hhmm", "+hh", "Z", "U+2212 hh:mm", "U+2212 hhmm"][*spelling as usize % 6])),
            ZoneChoice::Named { .. } => o = o.class("zone:named"),
            ZoneChoice::Unused => o = o.class(if t.epoch { "zone:epoch" } else { "zone:none(-t)" }),
        }
        if named_month {
            o = o.class(&format!("month-case:{}", ["Title", "lower", "UPPER"][case.case_mode as usize % 3]));
        }
        o.with_sample(json!({"template": t.name, "zone": format!("{:?}", case.zone), "frac": case.frac, "tz": tz, "lines": expected.len(), "first_line": expected[0].1, "first_instant_ns": expected[0].0.to_string()}))
    }
}
