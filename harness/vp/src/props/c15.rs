//! C15 — directories and stdin path lists expand to the same run as explicit files.

use crate::bytes::diff_msg;
use crate::containers::*;
use crate::dt;
use crate::engine::*;
use crate::fixedgen::*;
use crate::props::c16::NONLOG;
use crate::s4run::*;
use proptest::prelude::*;
use serde::{Deserialize, Serialize};
use serde_json::json;
use std::path::{Path, PathBuf};

pub struct C15;

#[derive(Clone, Debug, Serialize, Deserialize, PartialEq, Eq)]
pub enum Kind {
    /// text log stored with the given suffix (".log", ".1", "", ".log.gz" ...) and codec
    Text { suffix: String, codec: u8 },
    /// text log under a known non-log suffix
    NonLog { ext: String },
    /// tar with one text member
    Tar,
    /// linux utmpx records
    Utmp,
    /// empty file or tiny file (<= 5 bytes)
    Tiny { len: u8 },
    /// symlink to file index (earlier entry), named like its target
    LinkFile { target: u16 },
    /// symlink whose target does not exist (named like a log): contributes nothing, must not end the walk
    Dangling,
}

#[derive(Clone, Debug, Serialize, Deserialize, PartialEq, Eq)]
pub struct FileEnt {
    /// index into dirs
    pub dir: u16,
    pub stem: String,
    pub kind: Kind,
    /// name clash: place the file next to directory `clash` (in its parent) under the directory's own name followed
    /// by a character that sorts below '/' ('.', '-', ' '), so that string order and component-wise order differ
    #[serde(default)]
    pub clash: Option<(u16, u8)>,
}

#[derive(Clone, Debug, Serialize, Deserialize)]
pub struct Case {
    /// directories as (parent index, name); index 0 is the root (parent ignored)
    pub dirs: Vec<(u16, String)>,
    pub files: Vec<FileEnt>,
    /// symlinks in the root pointing at a non-root directory: (name, target dir index)
    pub dirlinks: Vec<(String, u16)>,
    /// stdin split of the explicit list: (i, j) as fractions of the list length (u16 monotone maps)
    pub split: (u16, u16),
    pub messages: u8,
}

const STEMS: &[&str] = &["app", "sys log", "kern", "日本", "é t", ".hidden", "a-b", "x_y", "Z", "10", "2", "messages", "auth"];
const DIRNAMES: &[&str] = &["d1", "sub dir", "日", "var.d", "a", "b.old", ".cfg"];

fn file_name(f: &FileEnt, all: &[FileEnt]) -> String {
    match &f.kind {
        Kind::Text { suffix, codec } => {
            let c = ["", ".gz", ".xz", ".bz2", ".lz4"][*codec as usize % 5];
            format!("{}{}{}", f.stem, suffix, c)
        }
        Kind::NonLog { ext } => format!("{}.{}", f.stem, ext),
        Kind::Tar => format!("{}.tar", f.stem),
        Kind::Utmp => format!("{}.wtmp", f.stem),
        Kind::Tiny { .. } => format!("{}.log", f.stem),
        Kind::Dangling => format!("{}-gone.log", f.stem),
        Kind::LinkFile { target } => {
            // link name classifies like its target: reuse the target's suffixes with another stem
            let t = &all[*target as usize % all.len().max(1)];
            if matches!(t.kind, Kind::LinkFile { .. }) {
                // links to links are not generated (build() skips them)
                return format!("{}-lnk.log", f.stem);
            }
            let tn = file_name(t, all);
            let suffix = tn.strip_prefix(t.stem.as_str()).unwrap_or("").to_string();
            format!("{}-lnk{}", f.stem, suffix)
        }
    }
}

fn dir_path(dirs: &[(u16, String)], i: usize) -> PathBuf {
    if i == 0 {
        return PathBuf::new();
    }
    let (p, n) = &dirs[i];
    let parent = (*p as usize) % i; // parent is always an earlier directory
    dir_path(dirs, parent).join(n)
}

fn text_content(id: usize, nmsg: u8) -> Vec<u8> {
    let mut out = vec![];
    for k in 0..nmsg.max(1) {
        let t: i64 = (1_600_000_000 + k as i64) * 1_000_000_000;
        let c = dt::civil(t as i128, 0);
        out.extend_from_slice(dt::strftime(&c, t as i128, "%Y-%m-%dT%H:%M:%S.%6f+00:00").as_bytes());
        out.extend_from_slice(format!(" #f{} message {}\n", crate::textgen::letters(id), crate::textgen::letters(k as usize)).as_bytes());
    }
    out
}

/// names s4 skips inside a walked directory (known non-log types)
fn skipped_in_walk(name: &str) -> bool {
    let l = name.to_ascii_lowercase();
    match l.rsplit_once('.') {
        Some((_, ext)) => NONLOG.contains(&ext),
        None => false,
    }
}

struct Built {
    root: PathBuf,
    /// explicit expansion of the root directory, in walk order
    expansion: Vec<PathBuf>,
    nonlog_paths: Vec<PathBuf>,
    has_symlink: bool,
    depth: usize,
    skipped: usize,
}

fn build(case: &Case, base: &Path) -> Result<Built, String> {
    let root = base.join("root");
    std::fs::create_dir_all(&root).map_err(|e| e.to_string())?;
    let ndirs = case.dirs.len().max(1);
    let mut depth = 0;
    for i in 1..ndirs {
        let p = root.join(dir_path(&case.dirs, i));
        depth = depth.max(dir_path(&case.dirs, i).components().count());
        std::fs::create_dir_all(&p).map_err(|e| e.to_string())?;
    }
    let mut nonlog_paths = vec![];
    let mut has_symlink = false;
    // de-duplicate names per directory
    let mut used: std::collections::HashSet<PathBuf> = Default::default();
    let mut real_paths: Vec<Option<PathBuf>> = vec![];
    for (i, f) in case.files.iter().enumerate() {
        let mut d = root.join(dir_path(&case.dirs, f.dir as usize % ndirs));
        let mut f = f.clone();
        if let (Some((ci, sepk)), true) = (f.clash, ndirs >= 2) {
            let di = 1 + (ci as usize % (ndirs - 1));
            let dp = dir_path(&case.dirs, di);
            let dname = dp.file_name().unwrap().to_string_lossy().to_string();
            d = root.join(dp.parent().unwrap_or(std::path::Path::new("")));
            f.stem = format!("{}{}", dname, ["", "-old", " x", ".1", "!"][sepk as usize % 5]);
        }
        let f = &f;
        let name = file_name(f, &case.files);
        let p = d.join(&name);
        if used.contains(&p) || p.exists() {
            real_paths.push(None);
            continue;
        }
        used.insert(p.clone());
        match &f.kind {
            Kind::Text { codec, .. } => {
                let data = text_content(i, case.messages);
                let c = match codec % 5 {
                    0 => Codec::Plain,
                    1 => Codec::Gz { level: 6, fname: false, fcomment: false, fextra: false, mtime: 1 },
                    2 => Codec::XzRs,
                    3 => Codec::Bz2 { level: 9 },
                    _ => Codec::Lz4 { block: 0, linked: false, content_checksum: false, block_checksums: false, content_size: false },
                };
                // wrap() appends the codec suffix itself: pass the name without it
                let stem_name = name.strip_suffix(c.suffix()).unwrap_or(&name).to_string();
                let out = wrap(&c, &data, &d, &stem_name, &stem_name)?;
                if out != p {
                    return Err(format!("internal: {} vs {}", out.display(), p.display()));
                }
            }
            Kind::NonLog { .. } => {
                std::fs::write(&p, text_content(i, case.messages)).map_err(|e| e.to_string())?;
                nonlog_paths.push(p.clone());
            }
            Kind::Tar => {
                let data = text_content(i, case.messages);
                let stem_name = name.strip_suffix(".tar").unwrap().to_string();
                // member names of log and of non-log kinds, at the top level and below directories: a tar is read the
                // same way whether it was named or found by a walk
                let member = ["member.log", "m/run.sh", "m/sub/data.bin", "notes.py", "var/log/messages", "dump.png.1"][i % 6];
                wrap(&Codec::Tar { format: 0, pos: 0, decoys: 1, mtime: 1, longname: false }, &data, &d, &stem_name, member)?;
            }
            Kind::Utmp => {
                let ff = FixedFile { layout: 0, recs: (0..case.messages.max(1)).map(|k| FRec { sec: 1_600_000_000 + k as i64, usec: 0, null: 0, pid: 100 + i as i32, typ: 6, serial: (i * 8 + k as usize) as u32, full: 0, stale: 0, addr: [0; 4] }).collect() };
                std::fs::write(&p, ff.render()).map_err(|e| e.to_string())?;
            }
            Kind::Tiny { len } => {
                std::fs::write(&p, &b"2020\n"[..(*len as usize % 6).min(5)]).map_err(|e| e.to_string())?;
            }
            Kind::Dangling => {
                std::os::unix::fs::symlink(root.join(format!("does-not-exist-{}", i)), &p).map_err(|e| e.to_string())?;
                has_symlink = true;
                real_paths.push(None);
                continue;
            }
            Kind::LinkFile { target } => {
                let ti = *target as usize % case.files.len();
                let tp = match real_paths.get(ti).and_then(|x| x.clone()) {
                    Some(tp) if !matches!(case.files[ti].kind, Kind::LinkFile { .. }) => tp,
                    _ => {
                        real_paths.push(None);
                        continue;
                    }
                };
                std::os::unix::fs::symlink(&tp, &p).map_err(|e| e.to_string())?;
                has_symlink = true;
            }
        }
        real_paths.push(Some(p));
    }
    for (name, target) in &case.dirlinks {
        if ndirs < 2 {
            break;
        }
        let ti = 1 + (*target as usize % (ndirs - 1));
        let tp = root.join(dir_path(&case.dirs, ti));
        let lp = root.join(name);
        if lp.exists() {
            continue;
        }
        std::os::unix::fs::symlink(&tp, &lp).map_err(|e| e.to_string())?;
        has_symlink = true;
    }
    // reference expansion: depth-first, entries of each directory sorted by name, symlinks followed,
    // known non-log names removed
    let mut expansion = vec![];
    let mut skipped = 0usize;
    fn walk(d: &Path, out: &mut Vec<PathBuf>, skipped: &mut usize) -> Result<(), String> {
        let mut ents: Vec<std::ffi::OsString> = std::fs::read_dir(d).map_err(|e| e.to_string())?.flatten().map(|e| e.file_name()).collect();
        ents.sort();
        for n in ents {
            let p = d.join(&n);
            let md = match std::fs::metadata(&p) {
                // follows symlinks; a dangling link is not a file
                Ok(md) => md,
                Err(_) => continue,
            };
            if md.is_dir() {
                walk(&p, out, skipped)?;
            } else if md.is_file() {
                if skipped_in_walk(&n.to_string_lossy()) {
                    *skipped += 1;
                } else {
                    out.push(p);
                }
            }
        }
        Ok(())
    }
    walk(&root, &mut expansion, &mut skipped)?;
    Ok(Built { root, expansion, nonlog_paths, has_symlink, depth, skipped })
}

impl Property for C15 {
    type Case = Case;
    fn id(&self) -> &'static str {
        "C15"
    }
    fn rule(&self) -> String {
        "case = generated directory tree (depth 0..3, 0..12 files; names with spaces, non-ASCII, leading dots; text logs under .log/.1/no suffix and .gz/.xz/.bz2/.lz4, tar archives, utmp files, text logs under known non-log suffixes, empty and tiny files, symlinks to files named like their targets, dangling symlinks, symlinks in the root to sub-directories; a quarter of the files are named like a sibling directory plus a character that sorts below '/' so that string order and component-wise path order differ); every file carries messages at the same instants so the expansion order is observable in the output. oracle (differential): stdout(s4 DIR) == stdout(s4 <reference expansion>) where the reference expansion is depth-first with names sorted per directory, symlinks followed, known non-log names removed; stdout(s4 a - b <<< c,d) == stdout(s4 a c d b) for a generated split; a non-log-suffixed file named explicitly prints its messages. non-trivial = >=2 files with cross-file ties and (nesting >=2 or a symlink or a skipped suffix); distinct = hash(case).".into()
    }
    fn assumptions(&self) -> Vec<String> {
        vec!["symlink names are chosen so that link and target classify identically (which name governs is not stated by the property)".into(), "directory symlinks never create cycles".into()]
    }
    fn cases(&self, tier: Tier) -> u32 {
        tier.pick(300, 6000)
    }
    fn strategy(&self, _tier: Tier) -> BoxedStrategy<Case> {
        let dirs = prop::collection::vec((any::<u16>(), prop::sample::select(DIRNAMES.to_vec()).prop_map(|s| s.to_string())), 0..5).prop_map(|mut v| {
            v.insert(0, (0, String::new()));
            // make names unique by suffixing the index
            for (i, d) in v.iter_mut().enumerate().skip(1) {
                d.1 = format!("{}{}", d.1, i);
            }
            v
        });
        let kind = prop_oneof![
            6 => (prop::sample::select(vec![".log", ".log.1", "", ".1", ".txt", ".log.old"]), 0u8..5).prop_map(|(s, codec)| Kind::Text { suffix: s.to_string(), codec }),
            2 => prop::sample::select(NONLOG.to_vec()).prop_map(|e| Kind::NonLog { ext: e.to_string() }),
            1 => Just(Kind::Tar),
            1 => Just(Kind::Utmp),
            1 => (0u8..6).prop_map(|len| Kind::Tiny { len }),
            2 => any::<u16>().prop_map(|target| Kind::LinkFile { target }),
            1 => Just(Kind::Dangling),
        ];
        let file = (any::<u16>(), prop::sample::select(STEMS.to_vec()), kind, any::<u8>(), prop::option::weighted(0.25, (any::<u16>(), any::<u8>()))).prop_map(|(dir, stem, kind, n, clash)| FileEnt { dir, stem: format!("{}{}", stem, n % 7), kind, clash });
        (dirs, prop::collection::vec(file, 0..12), prop::collection::vec((prop::sample::select(vec!["lnk", "zz link", "0first"]).prop_map(|s| s.to_string()), any::<u16>()), 0..2), (any::<u16>(), any::<u16>()), 1u8..4)
            .prop_map(|(dirs, files, dirlinks, split, messages)| Case { dirs, files, dirlinks, split, messages })
            .boxed()
    }
    fn exec(&self, case: &Case, _ctx: &Ctx) -> Outcome {
        let sc = Scratch::new();
        let tmp = sc.subdir("tmp");
        let b = match build(case, &sc.dir) {
            Ok(b) => b,
            Err(e) => return Outcome::inconclusive(format!("building tree: {}", e)),
        };
        let run = |paths: &[PathBuf], stdin: Option<&[u8]>, dash_at: Option<usize>| {
            let mut args = osargs(["--color", "never", "-t=+00:00"]);
            for (i, p) in paths.iter().enumerate() {
                if dash_at == Some(i) {
                    args.push("-".into());
                }
                args.push(p.clone().into());
            }
            if dash_at == Some(paths.len()) {
                args.push("-".into());
            }
            run_s4(RunSpec { args, stdin, tmpdir: Some(&tmp), ..Default::default() })
        };
        let check = |o: &RunOut, what: &str| -> Option<Outcome> {
            if o.timed_out {
                return Some(Outcome::inconclusive(format!("{} timed out", what)));
            }
            if o.signal.is_some() || o.panicked() || !matches!(o.status, Some(0) | Some(1)) {
                return Some(Outcome::fail("crash", format!("{}: status={:?} signal={:?} stderr={}", what, o.status, o.signal, crate::bytes::esc_trunc(&o.stderr, 600))));
            }
            None
        };
        let by_dir = run(&[b.root.clone()], None, None);
        if let Some(o) = check(&by_dir, "directory run") {
            return o;
        }
        let mut evals = 1;
        let names: Vec<String> = b.expansion.iter().map(|p| p.strip_prefix(&b.root).unwrap().to_string_lossy().to_string()).collect();
        if !b.expansion.is_empty() {
            let explicit = run(&b.expansion, None, None);
            evals += 1;
            if let Some(o) = check(&explicit, "explicit run") {
                return o;
            }
            if by_dir.stdout != explicit.stdout {
                let mut a = by_dir.stdout.split(|&c| c == b'\n').collect::<Vec<_>>();
                let mut e = explicit.stdout.split(|&c| c == b'\n').collect::<Vec<_>>();
                a.sort();
                e.sort();
                let sig = if a == e { "walk-order" } else { "walk-set" };
                return Outcome::fail(sig, format!("s4 DIR differs from s4 <expansion>; expansion={:?} {}", names, diff_msg(&by_dir.stdout, &explicit.stdout)));
            }
            // stdin split
            let n = b.expansion.len();
            let i = (case.split.0 as usize * (n + 1)) >> 16;
            let j = (case.split.1 as usize * (n + 1)) >> 16;
            let (i, j) = (i.min(j), i.max(j));
            let mut rest: Vec<PathBuf> = b.expansion[..i].to_vec();
            rest.extend_from_slice(&b.expansion[j..]);
            let stdin_text: Vec<u8> = b.expansion[i..j].iter().flat_map(|p| {
                let mut v = p.to_string_lossy().as_bytes().to_vec();
                v.push(b'\n');
                v
            }).collect();
            if !(rest.is_empty() && stdin_text.is_empty()) {
                let via = run(&rest, Some(&stdin_text), Some(i));
                evals += 1;
                if let Some(o) = check(&via, "stdin run") {
                    return o;
                }
                if via.stdout != explicit.stdout {
                    return Outcome::fail("stdin-split", format!("args {:?} with '-' at {} and {} stdin paths differs from the explicit list {:?}; {}", rest.len(), i, j - i, names, diff_msg(&via.stdout, &explicit.stdout)));
                }
            }
        } else if !by_dir.stdout.is_empty() {
            return Outcome::fail("walk-set", format!("directory without log files printed {} bytes", by_dir.stdout.len()));
        }
        // a non-log suffix named explicitly is attempted
        if let Some(p) = b.nonlog_paths.first() {
            let o = run(&[p.clone()], None, None);
            evals += 1;
            if let Some(x) = check(&o, "explicit non-log run") {
                return x;
            }
            if o.stdout.is_empty() {
                return Outcome::fail("explicit-not-attempted", format!("explicitly named {:?} printed nothing", p.file_name().unwrap()));
            }
        }
        let nfiles = b.expansion.len();
        let nontrivial = nfiles >= 2 && (b.depth >= 2 || b.has_symlink || b.skipped > 0);
        let mut o = Outcome::pass(nontrivial, hash_debug(case));
        o.evals = evals;
        if b.has_symlink {
            o = o.class("symlink");
        }
        if b.skipped > 0 {
            o = o.class("non-log-suffix-skipped");
        }
        if b.depth >= 2 {
            o = o.class("nesting>=2");
        }
        if nfiles == 0 {
            o = o.class("no-log-files");
        }
        if names.iter().any(|n| !n.is_ascii()) {
            o = o.class("non-ascii-name");
        }
        if names.iter().any(|n| n.contains(' ')) {
            o = o.class("space-in-name");
        }
        o.with_sample(json!({"expansion": names, "skipped": b.skipped, "stdout_bytes": by_dir.stdout.len()}))
    }
}
