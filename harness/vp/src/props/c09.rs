//! C09 — journal files: every entry once, in journal order, fields intact.

use crate::bytes::esc_trunc;
use crate::containers::*;
use crate::dt;
use crate::engine::*;
use crate::s4run::*;
use crate::sources::{repo_logs, split_sentinel, SENTINEL};
use crate::window::*;
use proptest::prelude::*;
use serde::{Deserialize, Serialize};
use serde_json::json;
use std::sync::{Mutex, OnceLock};

pub struct C09;

pub const JOURNALS: &[&str] = &[
    "programs/journal/RHE_91_system.journal.gz#gunzip",
    "programs/journal/Ubuntu22-user-1000x3.journal.gz#gunzip",
    "OpenSUSE15/journal/f4e4621cbd954e73a519d0ca3e0d82c3/system@29912846da1c4d1d8d50dd155c553bdc-0000000000005156-00060c85794a2d40.journal",
    "Ubuntu16/6c6ab73d82464b9493892c81fc732b3a/system.journal",
];
pub const OUTPUTS: &[&str] = &["short", "short-precise", "short-iso", "short-iso-precise", "short-full", "short-monotonic", "short-unix", "verbose", "export", "cat"];

#[derive(Clone, Debug, Serialize, Deserialize)]
pub struct Case {
    pub which: u8,
    pub output: u8,
    pub win: Option<WinSpec>,
    pub codec: Codec,
    pub tz15: i8,
}

#[derive(Clone, Debug)]
pub struct Entry {
    pub realtime_us: i64,
    pub fields: Vec<(Vec<u8>, Vec<u8>)>,
}

pub fn journal_bytes(which: usize) -> Result<Vec<u8>, String> {
    let rel = JOURNALS[which % JOURNALS.len()];
    let (rel, gunzip) = match rel.strip_suffix("#gunzip") {
        Some(r) => (r, true),
        None => (rel, false),
    };
    let raw = std::fs::read(repo_logs().join(rel)).map_err(|e| format!("{}: {}", rel, e))?;
    if gunzip {
        use std::io::Read;
        let mut v = Vec::new();
        flate2::read::GzDecoder::new(&raw[..]).read_to_end(&mut v).map_err(|e| e.to_string())?;
        Ok(v)
    } else {
        Ok(raw)
    }
}

/// parse `journalctl -o export` (binary-safe framing)
pub fn parse_export(b: &[u8]) -> Vec<Entry> {
    let mut entries = vec![];
    let mut cur: Vec<(Vec<u8>, Vec<u8>)> = vec![];
    let mut i = 0;
    let n = b.len();
    let flush = |cur: &mut Vec<(Vec<u8>, Vec<u8>)>, entries: &mut Vec<Entry>| {
        if !cur.is_empty() {
            let rt = cur.iter().find(|(k, _)| k == b"__REALTIME_TIMESTAMP").and_then(|(_, v)| std::str::from_utf8(v).ok()).and_then(|s| s.parse::<i64>().ok()).unwrap_or(0);
            entries.push(Entry { realtime_us: rt, fields: std::mem::take(cur) });
        }
    };
    while i < n {
        let j = b[i..].iter().position(|&c| c == b'\n').map(|p| p + i).unwrap_or(n);
        let line = &b[i..j];
        if line.is_empty() {
            flush(&mut cur, &mut entries);
            i = j + 1;
            continue;
        }
        if let Some(eq) = line.iter().position(|&c| c == b'=') {
            cur.push((line[..eq].to_vec(), line[eq + 1..].to_vec()));
            i = j + 1;
        } else {
            // binary field: KEY \n u64le length, data, \n
            if j + 9 > n {
                break;
            }
            let mut l = [0u8; 8];
            l.copy_from_slice(&b[j + 1..j + 9]);
            let len = u64::from_le_bytes(l) as usize;
            let s = j + 9;
            if s + len > n {
                break;
            }
            cur.push((line.to_vec(), b[s..s + len].to_vec()));
            i = s + len + 1;
        }
    }
    flush(&mut cur, &mut entries);
    entries
}

fn listing(which: usize) -> Result<std::sync::Arc<Vec<Entry>>, String> {
    static CACHE: OnceLock<Mutex<std::collections::HashMap<usize, std::sync::Arc<Vec<Entry>>>>> = OnceLock::new();
    let cache = CACHE.get_or_init(|| Mutex::new(Default::default()));
    let mut g = cache.lock().unwrap();
    if let Some(v) = g.get(&which) {
        return Ok(v.clone());
    }
    let data = journal_bytes(which)?;
    let dir = scratch_root().join(format!("c09-listing-{}", which));
    std::fs::create_dir_all(&dir).map_err(|e| e.to_string())?;
    let f = dir.join("x.journal");
    std::fs::write(&f, &data).map_err(|e| e.to_string())?;
    let out = std::process::Command::new("journalctl").arg("--file").arg(&f).args(["-o", "export", "--all", "--no-pager"]).env("TZ", "UTC").output().map_err(|e| format!("journalctl: {}", e))?;
    let _ = std::fs::remove_dir_all(&dir);
    if !out.status.success() || out.stdout.is_empty() {
        return Err(format!("journalctl failed: {}", String::from_utf8_lossy(&out.stderr)));
    }
    let v = std::sync::Arc::new(parse_export(&out.stdout));
    g.insert(which, v.clone());
    Ok(v)
}

/// is `msg` a concatenation, in some order, of exactly the chunks `KEY=value\n` of the entry?
fn export_matches(msg: &[u8], e: &Entry) -> Result<(), String> {
    let mut chunks: Vec<Vec<u8>> = e
        .fields
        .iter()
        .map(|(k, v)| {
            let mut c = k.clone();
            c.push(b'=');
            c.extend_from_slice(v);
            c.push(b'\n');
            c
        })
        .collect();
    chunks.sort_by_key(|c| std::cmp::Reverse(c.len()));
    let mut used = vec![false; chunks.len()];
    let mut p = 0;
    while p < msg.len() {
        let mut found = None;
        for (i, c) in chunks.iter().enumerate() {
            if !used[i] && msg[p..].starts_with(c) {
                found = Some(i);
                break;
            }
        }
        match found {
            Some(i) => {
                used[i] = true;
                p += chunks[i].len();
            }
            None => {
                // a final blank line terminates the entry
                if &msg[p..] == b"\n" {
                    p = msg.len();
                    break;
                }
                return Err(format!("unexpected bytes at offset {} of the printed entry: {:?}", p, esc_trunc(&msg[p..], 120)));
            }
        }
    }
    let missing: Vec<String> = chunks.iter().zip(used.iter()).filter(|(_, u)| !**u).map(|(c, _)| esc_trunc(c, 80)).collect();
    if !missing.is_empty() {
        return Err(format!("fields stored in the entry but not printed: {:?}", missing));
    }
    let _ = p;
    Ok(())
}

impl Property for C09 {
    type Case = Case;
    fn id(&self) -> &'static str {
        "C09"
    }
    fn rule(&self) -> String {
        "input space = the 4 available journal files (RHEL 9.1 system, Ubuntu 22 user x3, openSUSE 15 system, Ubuntu 16 system) x the ten --journal-output renderings x windows placed relative to the actual entry receive times (on an entry's microsecond incl. duplicated times, +-1us, between, before, after, A=B) x container (plain and generated gz/bz2/xz/lz4/tar) x -t in 15-minute steps. oracle (independent reader): `journalctl --file F -o export --all` parsed with its binary-safe framing gives the entry sequence with __REALTIME_TIMESTAMP and all fields; expected entries = those with A<=t<=B in journalctl's order; s4's output is split with a sentinel separator: count and order must match; export: every printed entry is exactly the entry's KEY=value chunks (any order); cat: MESSAGE text; short* renderings: after the timestamp the entry must read ` HOST IDENT[PID]: MESSAGE` built from the entry's own fields by journalctl's rule (SYSLOG_IDENTIFIER else _COMM; _PID else SYSLOG_PID); verbose: the first line of MESSAGE appears in the printed entry (timestamps of short* renderings are not compared, project Issue #101); container run == plain run. non-trivial = window cuts or a bound sits on an entry time, or rendering != default, or container != plain; distinct = hash(case).".into()
    }
    fn assumptions(&self) -> Vec<String> {
        vec!["journalctl (systemd 252) and libsystemd.so.0 are present; otherwise the check exits 2".into(), "only the shipped journal files are available (no journal writer installed)".into()]
    }
    fn cases(&self, tier: Tier) -> u32 {
        tier.pick(1200, 20000)
    }
    fn strategy(&self, _tier: Tier) -> BoxedStrategy<Case> {
        (
            prop_oneof![3 => Just(0u8), 2 => Just(1u8), 2 => Just(2u8), 2 => Just(3u8)],
            prop_oneof![2 => Just(0u8), 1 => 1u8..8, 3 => Just(8u8), 2 => Just(9u8)],
            prop::option::weighted(0.8, win_spec()),
            prop_oneof![4 => Just(Codec::Plain), 1 => any_codec()],
            -48i8..=56,
        )
            .prop_map(|(which, output, win, codec, tz15)| Case { which, output, win, codec, tz15 })
            .boxed()
    }
    fn exec(&self, case: &Case, _ctx: &Ctx) -> Outcome {
        let which = case.which as usize % JOURNALS.len();
        let entries = match listing(which) {
            Ok(e) => e,
            Err(e) => return Outcome::inconclusive(e),
        };
        let data = match journal_bytes(which) {
            Ok(d) => d,
            Err(e) => return Outcome::inconclusive(e),
        };
        let sc = Scratch::new();
        let tmp = sc.subdir("tmp");
        let plain = sc.write("p/a.journal", &data);
        let instants: Vec<i64> = entries.iter().map(|e| e.realtime_us * 1000).collect();
        let mut sorted = instants.clone();
        sorted.sort();
        // on small journals windows are cheap; on large ones keep them narrow-ish by construction of WinSpec
        let w = case.win.as_ref().map(|w| w.resolve(&sorted)).unwrap_or(Window::none());
        let expected: Vec<&Entry> = entries.iter().filter(|e| w.contains(e.realtime_us * 1000)).collect();
        let output = OUTPUTS[case.output as usize % OUTPUTS.len()];
        let tz = format!("-t={}", dt::off_colon(case.tz15 as i32 * 900));
        let run = |p: &std::path::Path| {
            let mut args = osargs(["--color", "never", "--journal-output", output]);
            args.push(tz.clone().into());
            args.push(format!("--separator={}", SENTINEL).into());
            for a in w.args() {
                args.push(a.into());
            }
            args.push(p.into());
            run_s4(RunSpec { args, tmpdir: Some(&tmp), timeout: std::time::Duration::from_secs(120), ..Default::default() })
        };
        let out = run(&plain);
        if out.timed_out {
            return Outcome::inconclusive("timeout".into());
        }
        if !out.ok01() || out.panicked() {
            return Outcome::fail("crash", format!("status={:?} signal={:?} stderr={}", out.status, out.signal, esc_trunc(&out.stderr, 500)));
        }
        if out.stderr_str().contains("libsystemd") && out.stdout.is_empty() && !expected.is_empty() {
            return Outcome::inconclusive(format!("libsystemd not usable: {}", esc_trunc(&out.stderr, 300)));
        }
        let ctx = format!("journal={} output={} {} window={:?}", JOURNALS[which].rsplit('/').next().unwrap(), output, tz, w.args());
        let msgs = split_sentinel(&out.stdout);
        if msgs.len() != expected.len() {
            return Outcome::fail("selection", format!("{}: printed {} entries, journalctl lists {} in the window (of {})", ctx, msgs.len(), expected.len(), entries.len()));
        }
        for (k, (m, e)) in msgs.iter().zip(expected.iter()).enumerate() {
            let message: Option<&Vec<u8>> = e.fields.iter().find(|(k, _)| k == b"MESSAGE").map(|(_, v)| v);
            match output {
                "export" => {
                    if let Err(err) = export_matches(m, e) {
                        return Outcome::fail("export-fields", format!("{}: entry #{} (realtime {}): {}", ctx, k, e.realtime_us, err));
                    }
                }
                "cat" => {
                    let mut want = message.cloned().unwrap_or_default();
                    want.push(b'\n');
                    if m != &want {
                        return Outcome::fail("cat-text", format!("{}: entry #{} printed {:?}, MESSAGE is {:?}", ctx, k, esc_trunc(m, 200), esc_trunc(&want, 200)));
                    }
                }
                _ => {
                    // short* renderings: after the timestamp the entry reads " HOST IDENT[PID]: MESSAGE" with
                    // IDENT = SYSLOG_IDENTIFIER else _COMM and PID = _PID else SYSLOG_PID (journalctl's rule)
                    if output.starts_with("short") {
                        let get = |key: &[u8]| e.fields.iter().find(|(k, _)| k.as_slice() == key).map(|(_, v)| v.clone());
                        let parts = [get(b"_HOSTNAME"), get(b"SYSLOG_IDENTIFIER").or_else(|| get(b"_COMM")), get(b"_PID").or_else(|| get(b"SYSLOG_PID")), message.cloned()];
                        if parts.iter().flatten().all(|v| std::str::from_utf8(v).is_ok()) {
                            let mut want: Vec<u8> = vec![];
                            if let Some(h) = &parts[0] {
                                want.push(b' ');
                                want.extend_from_slice(h);
                            }
                            if let Some(i) = &parts[1] {
                                want.push(b' ');
                                want.extend_from_slice(i);
                            }
                            if let Some(p) = &parts[2] {
                                want.push(b'[');
                                want.extend_from_slice(p);
                                want.push(b']');
                            }
                            if let Some(msg) = &parts[3] {
                                want.extend_from_slice(b": ");
                                want.extend_from_slice(msg);
                            }
                            want.push(b'\n');
                            if !m.ends_with(&want) {
                                return Outcome::fail("short-fields", format!("{}: entry #{} (realtime {}) printed {:?}, expected it to end with {:?}", ctx, k, e.realtime_us, esc_trunc(m, 300), esc_trunc(&want, 300)));
                            }
                        }
                    }
                    if let Some(msg) = message {
                        let first = msg.split(|&c| c == b'\n').next().unwrap_or(&[]);
                        if !first.is_empty() && std::str::from_utf8(first).is_ok() && !crate::props::c02::contains(m, first) {
                            return Outcome::fail("order-or-payload", format!("{}: entry #{} printed {:?} which does not carry MESSAGE {:?}", ctx, k, esc_trunc(m, 300), esc_trunc(first, 200)));
                        }
                    }
                }
            }
        }
        let mut evals = 1;
        if !matches!(case.codec, Codec::Plain) {
            let c = match wrap(&case.codec, &data, &sc.subdir("c"), "a.journal", "a.journal") {
                Ok(f) => f,
                Err(e) => return Outcome::inconclusive(e),
            };
            let o2 = run(&c);
            evals += 1;
            if o2.timed_out {
                return Outcome::inconclusive("timeout".into());
            }
            if !o2.ok01() || o2.panicked() {
                return Outcome::fail("crash", format!("container run status={:?} signal={:?} stderr={}", o2.status, o2.signal, esc_trunc(&o2.stderr, 500)));
            }
            if o2.stdout != out.stdout {
                return Outcome::fail("container-differs", format!("{}: {} prints {} bytes, plain prints {} bytes", ctx, case.codec.kind(), o2.stdout.len(), out.stdout.len()));
            }
        }
        let cuts = !expected.is_empty() && expected.len() < entries.len();
        let on = w.on_instant(&instants);
        let nontrivial = cuts || on || case.output % 10 != 0 || !matches!(case.codec, Codec::Plain);
        let mut o = Outcome::pass(nontrivial, hash_debug(case));
        o.evals = evals;
        o = o.class(&format!("output:{}", output)).class(&format!("journal:{}", which)).class(&format!("codec:{}", case.codec.kind()));
        if cuts {
            o = o.class("window-cuts");
        }
        if on {
            o = o.class("bound-on-entry-time");
        }
        if expected.is_empty() {
            o = o.class("empty-selection");
        }
        o.with_sample(json!({"journal": JOURNALS[which], "entries": entries.len(), "output": output, "tz": tz, "window": w.args(), "printed": msgs.len(), "codec": case.codec.kind()}))
    }
}
