//! C06 — output is independent of thread scheduling and the run always ends.

use crate::bytes::diff_msg;
use crate::containers::Codec;
use crate::engine::*;
use crate::props::c01::tz_arg;
use crate::s4run::*;
use crate::sources::*;
use crate::textgen::OFFSETS;
use proptest::prelude::*;
use serde::{Deserialize, Serialize};
use serde_json::json;
use std::collections::{BTreeMap, HashSet};

pub struct C06;

#[derive(Clone, Debug, Serialize, Deserialize, PartialEq, Eq)]
pub enum Sched {
    /// send order plan: 0 round-robin, 1 reverse round-robin, 2 bursts (each source sends up to 5 in a row), 3 slow source `which` sends its
    /// file-info last, 4 random interleaving from `seed`
    Plan { kind: u8, which: u8, seed: u64 },
    Jitter { seed: u32, permille: u16, max_us: u16, slow: Option<u8> },
}

#[derive(Clone, Debug, Serialize, Deserialize)]
pub struct Case {
    pub srcs: Vec<Source>,
    /// extra sources that yield no messages: 0 none, 1 an empty file, 2 a text file without timestamps, 3 both
    pub empties: u8,
    pub tz_off: i32,
    pub scheds: Vec<Sched>,
}

fn xorshift(s: &mut u64) -> u64 {
    let mut x = *s | 1;
    x ^= x << 13;
    x ^= x >> 7;
    x ^= x << 17;
    *s = x;
    x
}

/// total order of worker sends for a plan; counts[i] = number of sends of source i (file-info + messages + summary)
pub fn make_plan(kind: u8, which: u8, seed: u64, counts: &[usize]) -> Vec<usize> {
    let n = counts.len();
    let mut left: Vec<usize> = counts.to_vec();
    let mut out = vec![];
    let total: usize = counts.iter().sum();
    match kind % 5 {
        0 | 1 => {
            while out.len() < total {
                let order: Vec<usize> = if kind % 5 == 0 { (0..n).collect() } else { (0..n).rev().collect() };
                for i in order {
                    if left[i] > 0 {
                        out.push(i);
                        left[i] -= 1;
                    }
                }
            }
        }
        2 => {
            // bursts: a source sends as much as the bounded channel takes (5) before the next one moves
            while out.len() < total {
                for i in 0..n {
                    for _ in 0..5 {
                        if left[i] > 0 {
                            out.push(i);
                            left[i] -= 1;
                        }
                    }
                }
            }
        }
        3 => {
            // everyone else sends file-info and fills its channel, the slow source sends its file-info last
            let slow = which as usize % n;
            for i in 0..n {
                if i != slow {
                    for _ in 0..5 {
                        if left[i] > 0 {
                            out.push(i);
                            left[i] -= 1;
                        }
                    }
                }
            }
            while out.len() < total {
                for i in 0..n {
                    let j = (slow + i) % n;
                    if left[j] > 0 {
                        out.push(j);
                        left[j] -= 1;
                    }
                }
            }
        }
        _ => {
            let mut s = seed;
            while out.len() < total {
                let live: Vec<usize> = (0..n).filter(|&i| left[i] > 0).collect();
                let i = live[(xorshift(&mut s) % live.len() as u64) as usize];
                // short runs so that bursts and single steps both occur
                let run = 1 + (xorshift(&mut s) % 4) as usize;
                for _ in 0..run {
                    if left[i] > 0 {
                        out.push(i);
                        left[i] -= 1;
                    }
                }
            }
        }
    }
    out
}

/// history invariants over a recorded trace; returns (distinct arrival signature, number of timeouts, blocked-send observed)
pub fn check_trace(trace: &str, nsrc: usize) -> Result<(u64, usize, bool), String> {
    let mut got_info: HashSet<usize> = HashSet::new();
    let mut closed: HashSet<usize> = HashSet::new();
    let mut recv_m: BTreeMap<usize, usize> = BTreeMap::new();
    let mut printed: BTreeMap<usize, usize> = BTreeMap::new();
    let mut arrival: Vec<u8> = vec![];
    let mut timeouts = 0;
    let mut ended = false;
    let mut sent_not_received: BTreeMap<usize, i64> = BTreeMap::new();
    let mut blocked = false;
    for (ln, line) in trace.lines().enumerate() {
        let f: Vec<&str> = line.split_whitespace().collect();
        if f.is_empty() {
            continue;
        }
        match f[0] {
            "S" => {
                let pid: usize = f[1].parse().map_err(|_| format!("bad trace line {}", ln))?;
                let e = sent_not_received.entry(pid).or_insert(0);
                *e += 1;
                if *e > 5 {
                    blocked = true;
                }
            }
            "T" => timeouts += 1,
            "R" => {
                let pid: usize = f[1].parse().map_err(|_| format!("bad trace line {}", ln))?;
                arrival.push(pid as u8);
                arrival.push(f[2].as_bytes()[0]);
                *sent_not_received.entry(pid).or_insert(0) -= 1;
                if closed.contains(&pid) {
                    return Err(format!("trace line {}: event from source {} after its summary/close", ln + 1, pid));
                }
                match f[2] {
                    "I" => {
                        if !got_info.insert(pid) {
                            return Err(format!("trace line {}: second file-info from source {}", ln + 1, pid));
                        }
                    }
                    "M" => {
                        if !got_info.contains(&pid) {
                            return Err(format!("trace line {}: message from source {} before its file-info", ln + 1, pid));
                        }
                        *recv_m.entry(pid).or_insert(0) += 1;
                        // a second message may only be received after the first was printed
                        if recv_m[&pid] > printed.get(&pid).cloned().unwrap_or(0) + 1 {
                            return Err(format!("trace line {}: source {} polled again while its message is still pending", ln + 1, pid));
                        }
                    }
                    "S" | "X" => {
                        closed.insert(pid);
                    }
                    _ => {}
                }
            }
            "P" => {
                let pid: usize = f[1].parse().map_err(|_| format!("bad trace line {}", ln))?;
                let dtp: i64 = f[2].parse().map_err(|_| format!("bad trace line {}", ln))?;
                let live: usize = f[3].trim_start_matches("live=").parse().map_err(|_| format!("bad trace line {}", ln))?;
                let pend: Vec<(usize, i64)> = f[4]
                    .trim_start_matches("pending=")
                    .split(',')
                    .filter(|s| !s.is_empty())
                    .map(|s| {
                        let (a, b) = s.split_once(':').unwrap_or(("0", "0"));
                        (a.parse().unwrap_or(0), b.parse().unwrap_or(0))
                    })
                    .collect();
                if pend.len() != live {
                    return Err(format!("trace line {}: printed while {} of {} live sources have a pending message", ln + 1, pend.len(), live));
                }
                if got_info.len() < nsrc.min(got_info.len().max(1)) {
                    // (all file-infos are required before the first print; checked below through counts)
                }
                let min = pend.iter().min_by_key(|(p, t)| (*t, *p)).cloned();
                if min != Some((pid, dtp)) {
                    return Err(format!("trace line {}: printed source {} at {} but the earliest pending is {:?} (pending {:?})", ln + 1, pid, dtp, min, pend));
                }
                *printed.entry(pid).or_insert(0) += 1;
                if printed[&pid] > recv_m.get(&pid).cloned().unwrap_or(0) {
                    return Err(format!("trace line {}: source {} printed more messages than it delivered", ln + 1, pid));
                }
            }
            "E" => ended = true,
            _ => {}
        }
    }
    if !ended {
        // when no file is processable (e.g. only empty files) the coordinator never enters its loop: nothing to check
        if arrival.is_empty() && printed.is_empty() {
            return Ok((0, timeouts, false));
        }
        return Err("trace has no end-of-loop event".into());
    }
    for (pid, n) in &recv_m {
        if printed.get(pid).cloned().unwrap_or(0) != *n {
            return Err(format!("source {} delivered {} messages, {} printed", pid, n, printed.get(pid).cloned().unwrap_or(0)));
        }
    }
    for pid in &got_info {
        if !closed.contains(pid) {
            return Err(format!("source {} still live at the end of the loop", pid));
        }
    }
    Ok((fnv(&arrival), timeouts, blocked))
}

impl Property for C06 {
    type Case = Case;
    fn id(&self) -> &'static str {
        "C06"
    }
    fn rule(&self) -> String {
        "case = 1..8 sources (generated text logs plain/gz/bz2/xz/lz4 with 0..14 messages so the capacity-5 channel fills, synthesised accounting records, plus optional sources with no messages at all: an empty file and a text file without timestamps) x 3 (quick) / 12 (thorough) schedules enforced through the s4_verif hooks: send-order plans (round-robin, reverse, bursts of 5, slow file-info, random interleavings) and random jitter (5%..50% of hook points, up to 5 ms, one source 20x slower, delays before coordinator polls). oracle: (1) stdout under every schedule == schedule-free run == O-merge reference, same exit status; (2) the run ends (watchdog; a stalled process with all threads asleep is a deadlock); (3) history invariants over the recorded trace: per source I M* (S|X), no poll of a source with a pending message, a print only when every live source has a pending message, the printed message is the (instant, position) minimum of the pending set, every delivered message printed exactly once, no live source at loop end. non-trivial = >=2 sources with messages and an arrival order not seen before for this case; distinct = hash of the coordinator's arrival sequence.".into()
    }
    fn assumptions(&self) -> Vec<String> {
        vec![
            "schedules are explored, not enumerated; preemption inside hook-free regions is not controlled".into(),
            "an infeasible planned order degrades through the hook's 200 ms timeout (counted as relaxed), never into a false deadlock".into(),
        ]
    }
    fn cases(&self, tier: Tier) -> u32 {
        tier.pick(160, 2500)
    }
    fn strategy(&self, tier: Tier) -> BoxedStrategy<Case> {
        let nsched = tier.pick(3usize, 12);
        let sched = prop_oneof![
            3 => (0u8..5, any::<u8>(), any::<u64>()).prop_map(|(kind, which, seed)| Sched::Plan { kind, which, seed }),
            2 => (any::<u32>(), prop::sample::select(vec![50u16, 200, 500]), prop::sample::select(vec![50u16, 500, 5000]), prop::option::of(any::<u8>())).prop_map(|(seed, permille, max_us, slow)| Sched::Jitter { seed, permille, max_us, slow }),
        ];
        (prop::sample::select(OFFSETS.to_vec()), 0u8..4)
            .prop_flat_map(move |(tz_off, empties)| (source_set(8, 14, false, tz_off), Just(empties), Just(tz_off), prop::collection::vec(sched.clone(), nsched..=nsched)))
            .prop_map(|(srcs, empties, tz_off, scheds)| {
                let srcs = srcs
                    .into_iter()
                    .map(|s| match s {
                        // one path id per file: no tar (a tar holds several members)
                        Source::Text { log, codec: Codec::Tar { .. } } => Source::Text { log, codec: Codec::Plain },
                        Source::Fixed { file, codec: Codec::Tar { .. } } => Source::Fixed { file, codec: Codec::Plain },
                        s => s,
                    })
                    .collect();
                Case { srcs, empties, tz_off, scheds }
            })
            .boxed()
    }
    fn exec(&self, case: &Case, _ctx: &Ctx) -> Outcome {
        let sc = Scratch::new();
        let dir = sc.subdir("in");
        let tmp = sc.subdir("tmp");
        let tz = tz_arg(case.tz_off);
        let mut mats = vec![];
        for (i, s) in case.srcs.iter().enumerate() {
            if let Source::Text { log, .. } = s {
                let r = log.render();
                if !log.msgs.is_empty() && !crate::textgen::accepted_at(&r, log.header.len(), 65536) {
                    return Outcome::discard("outside block-zero acceptance (F6)");
                }
            }
            match materialize(i, s, &dir, &tmp, &tz) {
                Ok(m) => mats.push(m),
                Err(e) => return crate::sources::materialize_failed(e),
            }
        }
        let mut paths: Vec<std::path::PathBuf> = mats.iter().map(|m| m.path.clone()).collect();
        let mut counts: Vec<usize> = mats.iter().map(|m| m.msgs.len() + 2).collect();
        if case.empties & 1 != 0 {
            let p = dir.join("zz-empty.log");
            std::fs::write(&p, b"").unwrap();
            paths.push(p);
            counts.push(2);
        }
        if case.empties & 2 != 0 {
            let p = dir.join("zz-notimestamps.log");
            std::fs::write(&p, b"no timestamps in here\njust words\nand more words\n").unwrap();
            paths.push(p);
            counts.push(2);
        }
        let msgs: Vec<&[Msg]> = mats.iter().map(|m| &m.msgs[..]).collect();
        let want = expected_merged(&msgs, false);
        let base_args = {
            let mut a = osargs(["--color", "never"]);
            a.push(tz.clone().into());
            for p in &paths {
                a.push(p.clone().into());
            }
            a
        };
        let plain = run_s4(RunSpec { args: base_args.clone(), tmpdir: Some(&tmp), ..Default::default() });
        if plain.timed_out {
            return if plain.deadlocked { Outcome::fail("deadlock", "schedule-free run stopped making progress (all threads asleep)".into()) } else { Outcome::inconclusive("timeout".into()) };
        }
        if !plain.ok01() || plain.panicked() {
            return Outcome::fail("crash", format!("status={:?} signal={:?} stderr={}", plain.status, plain.signal, plain.stderr_str()));
        }
        if plain.stdout != want {
            return Outcome::fail("model", format!("schedule-free run differs from the reference merge: {}", diff_msg(&plain.stdout, &want)));
        }
        let live_sources = msgs.iter().filter(|m| !m.is_empty()).count();
        let mut seen: HashSet<u64> = HashSet::new();
        let mut nontrivial_key = 0u64;
        let mut classes: Vec<String> = vec![];
        let mut evals = 1u64;
        for (k, sch) in case.scheds.iter().enumerate() {
            let trace_path = sc.path(&format!("trace-{}.txt", k));
            let mut env = vec![("S4_VERIF_TRACE".to_string(), trace_path.to_string_lossy().to_string())];
            let desc;
            match sch {
                Sched::Plan { kind, which, seed } => {
                    let plan = make_plan(*kind, *which, *seed, &counts);
                    let pp = sc.path(&format!("plan-{}.txt", k));
                    std::fs::write(&pp, plan.iter().map(|p| p.to_string()).collect::<Vec<_>>().join(" ")).unwrap();
                    env.push(("S4_VERIF_PLAN".into(), pp.to_string_lossy().to_string()));
                    env.push(("S4_VERIF_PLAN_TIMEOUT_MS".into(), "150".into()));
                    desc = format!("plan kind={} which={} seed={}", kind % 5, which, seed);
                    classes.push(format!("plan:{}", ["round-robin", "reverse", "bursts-of-5", "slow-file-info", "random"][*kind as usize % 5]));
                }
                Sched::Jitter { seed, permille, max_us, slow } => {
                    let slow_s = slow.map(|s| format!(":{}", s as usize % counts.len())).unwrap_or_default();
                    env.push(("S4_VERIF_JITTER".into(), format!("{}:{}:{}{}", seed, permille, max_us, slow_s)));
                    desc = format!("jitter seed={} permille={} max_us={} slow={:?}", seed, permille, max_us, slow);
                    classes.push("jitter".into());
                }
            }
            let out = run_s4(RunSpec { args: base_args.clone(), tmpdir: Some(&tmp), env, timeout: std::time::Duration::from_secs(90), ..Default::default() });
            evals += 1;
            let trace = std::fs::read_to_string(&trace_path).unwrap_or_default();
            if out.timed_out {
                if out.deadlocked {
                    return Outcome::fail("deadlock", format!("{}: the run stopped making progress (all threads asleep, no CPU used); trace tail: {:?}", desc, trace.lines().rev().take(12).collect::<Vec<_>>()));
                }
                return Outcome::inconclusive(format!("{}: timeout", desc));
            }
            if !out.ok01() || out.panicked() {
                return Outcome::fail("crash", format!("{}: status={:?} signal={:?} stderr={}", desc, out.status, out.signal, out.stderr_str()));
            }
            if out.stdout != plain.stdout {
                return Outcome::fail("output-depends-on-schedule", format!("{}: {}", desc, diff_msg(&out.stdout, &plain.stdout)));
            }
            if out.status != plain.status {
                return Outcome::fail("status-depends-on-schedule", format!("{}: exit status {:?} vs {:?}", desc, out.status, plain.status));
            }
            match check_trace(&trace, counts.len()) {
                Err(e) => return Outcome::fail("trace-invariant", format!("{}: {}", desc, e)),
                Ok((sig, timeouts, blocked)) => {
                    if seen.insert(sig) && live_sources >= 2 {
                        nontrivial_key ^= sig;
                    }
                    if timeouts > 0 {
                        classes.push("plan-relaxed(timeout)".into());
                    }
                    if blocked {
                        classes.push("worker-blocked-on-full-channel".into());
                    }
                }
            }
        }
        let mut o = Outcome::pass(live_sources >= 2 && !seen.is_empty(), hash_debug(case) ^ nontrivial_key);
        o.evals = evals;
        classes.sort();
        classes.dedup();
        for c in classes {
            o = o.class(&c);
        }
        o = o.class(&format!("distinct-arrival-orders:{}", seen.len()));
        if case.empties != 0 {
            o = o.class("source-without-messages");
        }
        if counts.len() >= 5 {
            o = o.class("sources>=5");
        }
        o.with_sample(json!({"sources": case.srcs.iter().map(|s| s.kind()).collect::<Vec<_>>(), "message_counts": msgs.iter().map(|m| m.len()).collect::<Vec<_>>(), "empties": case.empties,
            "schedules": case.scheds.iter().map(|s| format!("{:?}", s)).collect::<Vec<_>>(), "distinct_arrival_orders": seen.len()}))
    }
}
