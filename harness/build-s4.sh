#!/bin/bash
# Build the s4 binary from /repo's current working tree (hooks on), release-like profile.
# usage: build-s4.sh [repo_dir] ; prints path of the binary
set -e
REPO="${VP_REPO:-/repo}"
TD="${VP_S4_TARGET:-/verif/harness/target-s4}"
export CARGO_NET_OFFLINE=true
export RUSTFLAGS="--cfg s4_verif ${VP_EXTRA_RUSTFLAGS:-}"
cargo build --offline --release --bin s4 \
  --manifest-path "$REPO/Cargo.toml" --target-dir "$TD" \
  --config 'profile.release.lto=false' \
  --config 'profile.release.codegen-units=16' \
  --config 'profile.release.strip=false' \
  --config 'profile.release.debug-assertions=false' \
  --config 'profile.release.overflow-checks=false' \
  --config 'profile.release.incremental=false' >&2
echo "$TD/release/s4"
