#![no_main]
//! C07/C10 in-process: the fuzzer's bytes are an .evtx file. `EvtxReader` is driven like `exec_evtxprocessor`
//! (new, analyze without window, next until exhausted). Oracles: no panic (s4 is built with panic=abort, so a panic in
//! the reader kills the whole run) and termination.
//! Excluded by construction and counted (known findings in the third-party `evtx` crate 0.8.5, see known_findings.jsonl):
//! F27 cyclic string/template chains (endless loop), F28 panics whose location lies inside the evtx crate's sources.
use libfuzzer_sys::fuzz_target;
use s4lib::common::{FileType, FileTypeArchive};
use s4lib::readers::evtxreader::EvtxReader;
use std::sync::Mutex;

static LAST_PANIC: Mutex<String> = Mutex::new(String::new());
static HOOK: std::sync::Once = std::sync::Once::new();

fn count(dir: &str, name: &str) {
    use std::io::Write;
    if let Ok(mut f) = std::fs::OpenOptions::new().create(true).append(true).open(format!("{}/{}", dir, name)) {
        let _ = f.write_all(b"x");
    }
}

fuzz_target!(|data: &[u8]| {
    let dir = std::env::var("VP_FZ_DIR").unwrap_or_else(|_| "/dev/shm".to_string());
    if vplib::props::c07::evtx_chain_cycle(data).is_some() {
        count(&dir, "excluded-f27");
        return;
    }
    // replace libfuzzer-sys' aborting hook: remember where the panic happened, decide after unwinding
    HOOK.call_once(|| {
        std::panic::set_hook(Box::new(|info| {
            let loc = info.location().map(|l| format!("{}:{}", l.file(), l.line())).unwrap_or_default();
            *LAST_PANIC.lock().unwrap() = format!("{} ({})", loc, info);
        }));
    });
    let path = format!("{}/fz-evtx-{}.evtx", dir, std::process::id());
    std::fs::write(&path, data).unwrap();
    let r = std::panic::catch_unwind(|| {
        let ft = FileType::Evtx { archival_type: FileTypeArchive::Normal };
        let mut r = match EvtxReader::new(path.clone(), ft) {
            Ok(r) => r,
            Err(_) => return,
        };
        r.analyze(&None, &None);
        let mut n = 0usize;
        while let Some(e) = r.next() {
            n += 1;
            if n > 1_000_000 {
                panic!("C07: no termination");
            }
            let _ = e.as_bytes().len();
        }
    });
    if r.is_err() {
        let loc = LAST_PANIC.lock().unwrap().clone();
        if loc.contains("/evtx-0.") {
            count(&dir, "excluded-f28");
            return;
        }
        eprintln!("C07: panicked at {}", loc);
        std::process::abort();
    }
});
