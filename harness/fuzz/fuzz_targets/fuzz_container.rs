#![no_main]
//! C07/C05 in-process: the fuzzer's bytes are stored under a container name chosen by the first byte (.gz .bz2 .xz
//! .lz4 .tar, text or accounting-record inside) after a structure-aware fix-up (tar header checksums are recomputed so
//! that mutated header fields reach the reader instead of being rejected). `process_path` lists what s4 would read;
//! every text / accounting-record entry is then opened with `BlockReader` and read block by block. Oracles: no panic,
//! no out-of-bounds read (ASan), termination, `mtime()` answers, at most `blockoffset_last()+1` blocks are delivered.
use libfuzzer_sys::fuzz_target;
use s4lib::common::{FileType, ResultS3};
use s4lib::readers::blockreader::BlockReader;
use s4lib::readers::filepreprocessor::{process_path, ProcessPathResult};

const NAMES: &[&str] = &["a.log.gz", "a.log.bz2", "a.log.xz", "a.log.lz4", "a.tar", "wtmp.gz", "wtmp.tar", "a.log.tar", "lastlog.xz", "acct.bz2"];

fuzz_target!(|data: &[u8]| {
    if data.len() < 2 {
        return;
    }
    let name = NAMES[data[0] as usize % NAMES.len()];
    let bs: u64 = [64u64, 100, 512, 4096, 0xFFFF][(data[0] as usize / NAMES.len()) % 5];
    let mut body = data[1..].to_vec();
    if name.ends_with(".tar") {
        let mut o = 0;
        while o + 512 <= body.len() {
            if &body[o + 257..o + 262] == b"ustar" {
                body[o + 148..o + 156].fill(b' ');
                let sum: u32 = body[o..o + 512].iter().map(|&b| b as u32).sum();
                body[o + 148..o + 156].copy_from_slice(format!("{:06o}\0 ", sum).as_bytes());
            }
            o += 512;
        }
    }
    let dir = format!("{}/fz-cont-{}", std::env::var("VP_FZ_DIR").unwrap_or_else(|_| "/dev/shm".to_string()), std::process::id());
    let _ = std::fs::create_dir_all(&dir);
    let path = format!("{}/{}", dir, name);
    std::fs::write(&path, &body).unwrap();
    for r in process_path(&path, true) {
        if let ProcessPathResult::FileValid(p, ft) = r {
            if !matches!(ft, FileType::Text { .. } | FileType::FixedStruct { .. }) {
                continue;
            }
            let mut br = match BlockReader::new(p, ft, bs) {
                Ok(b) => b,
                Err(_) => continue,
            };
            let _ = br.mtime();
            let last = br.blockoffset_last();
            let mut bo = 0;
            loop {
                if bo > last + 1 {
                    panic!("C07: block {} delivered beyond the last block {}", bo, last);
                }
                match br.read_block(bo) {
                    ResultS3::Found(_) => bo += 1,
                    ResultS3::Done => break,
                    ResultS3::Err(_) => break,
                }
            }
        }
    }
    let _ = std::fs::remove_file(&path);
});
