#![no_main]
//! C16: classification terminates without panic for every byte string used as a file name, and with
//! unparseable_are_text=true never yields Unparsable; invariance under upper-casing.
use libfuzzer_sys::fuzz_target;
use s4lib::common::FileType;
use s4lib::readers::filepreprocessor::{path_to_filetype, PathToFiletypeResult};
use std::ffi::OsString;
use std::os::unix::ffi::OsStringExt;
use std::path::PathBuf;

fuzz_target!(|data: &[u8]| {
    if data.len() > 4096 || data.contains(&0) {
        return;
    }
    let p = PathBuf::from(OsString::from_vec(data.to_vec()));
    let a = path_to_filetype(&p, true);
    if let PathToFiletypeResult::Filetype(FileType::Unparsable) = a {
        panic!("C16: Unparsable with unparseable_are_text=true for {:?}", p);
    }
    let _b = path_to_filetype(&p, false);
    // upper-casing ASCII letters of the file name must not change the result
    if let Ok(s) = std::str::from_utf8(data) {
        if !s.contains('/') {
            let u = PathBuf::from(s.to_ascii_uppercase());
            let c = path_to_filetype(&u, true);
            if format!("{:?}", c) != format!("{:?}", a) {
                panic!("C16: case changes classification: {:?} -> {:?} vs {:?} -> {:?}", p, a, u, c);
            }
        }
    }
});
