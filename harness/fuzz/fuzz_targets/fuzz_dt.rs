#![no_main]
//! C04 in-process: the fuzzer's bytes are decoded into one notation template of C04's grammar (`T4S`), a zone
//! spelling, a fraction length, a letter case, a `-t` offset and 3..12 instants; the rendered log is read through
//! `SyslogProcessor` (stage sequence of `exec_syslogprocessor`) and every message must carry exactly the instant the
//! generator wrote, with each line its own message.
use arbitrary::Unstructured;
use libfuzzer_sys::fuzz_target;
use s4lib::common::{FileOffset, FileType, FileTypeArchive, FileTypeTextEncoding, ResultS3};
use s4lib::readers::syslogprocessor::{FileProcessingResultBlockZero, SyslogProcessor};
use vplib::props::c04::{render, Case, Stamp, ZoneChoice, Zk, T4S};

fuzz_target!(|data: &[u8]| {
    let mut u = Unstructured::new(data);
    let ti = u.int_in_range(0usize..=T4S.len() - 1).unwrap_or(0);
    let t = &T4S[ti];
    let zone = match t.zone {
        Zk::Num { colon, nocolon, hh, z } => {
            let mut sp: Vec<u8> = vec![];
            if colon {
                sp.push(0);
                sp.push(4);
            }
            if nocolon {
                sp.push(1);
                sp.push(5);
            }
            if hh {
                sp.push(2);
            }
            if z {
                sp.push(3);
            }
            let k = u.int_in_range(0usize..=sp.len() - 1).unwrap_or(0);
            ZoneChoice::Num { spelling: sp[k] }
        }
        Zk::Named => ZoneChoice::Named { idx: u.arbitrary::<u16>().unwrap_or(0) },
        _ => ZoneChoice::Unused,
    };
    let frac = t.frac[u.int_in_range(0usize..=t.frac.len() - 1).unwrap_or(0)];
    let case_mode = u.int_in_range(0u8..=2).unwrap_or(0);
    let cli_off15 = u.int_in_range(-48i8..=56).unwrap_or(0);
    let n = u.int_in_range(3usize..=12).unwrap_or(3);
    let mut stamps: Vec<Stamp> = vec![];
    for _ in 0..n {
        stamps.push(Stamp {
            day: u.int_in_range(400u32..=47000).unwrap_or(18000),
            sod: u.int_in_range(0u32..=86399).unwrap_or(0),
            ns: u.int_in_range(0u32..=999_999_999).unwrap_or(0),
            off15: u.int_in_range(-48i8..=56).unwrap_or(0),
            zvar: u.arbitrary::<u8>().unwrap_or(0),
        });
    }
    stamps.sort_by_key(|s| (s.day, s.sod, s.ns));
    let case = Case { tmpl: ti, zone, frac, case_mode, cli_off15, stamps };
    let mut content: Vec<u8> = vec![];
    let mut expected: Vec<(i128, Vec<u8>)> = vec![];
    for (i, st) in case.stamps.iter().enumerate() {
        if let Some((ts, inst)) = render(t, &case, st) {
            let line = format!("{}{}{}{} end\n", t.pre, ts, t.post, vplib::textgen::letters(i));
            content.extend_from_slice(line.as_bytes());
            expected.push((inst, line.into_bytes()));
        }
    }
    if expected.len() < 3 {
        return;
    }
    let path = format!("{}/fz-dt-{}.log", std::env::var("VP_FZ_DIR").unwrap_or_else(|_| "/dev/shm".to_string()), std::process::id());
    std::fs::write(&path, &content).unwrap();
    let ft = FileType::Text { archival_type: FileTypeArchive::Normal, encoding_type: FileTypeTextEncoding::Utf8Ascii };
    let tz = chrono::FixedOffset::east_opt(case.cli_off15 as i32 * 900).unwrap();
    let mut sp = match SyslogProcessor::new(path.clone(), ft, 0xFFFF, tz, None, None) {
        Ok(s) => s,
        Err(_) => return,
    };
    let _ = sp.process_stage0_valid_file_check();
    let describe = || format!("template={} zone={:?} frac={} case_mode={} -t={} first_line={:?}", t.name, case.zone, case.frac, case.case_mode, case.cli_off15 as i32 * 900, String::from_utf8_lossy(&expected[0].1));
    if !matches!(sp.process_stage1_blockzero_analysis(), FileProcessingResultBlockZero::FileOk) {
        panic!("C04: not parsed: {}", describe());
    }
    if !matches!(sp.process_stage2_find_dt(&None), FileProcessingResultBlockZero::FileOk) {
        panic!("C04: stage 2 failed: {}", describe());
    }
    let mut fo1: FileOffset = 0;
    let mut k = 0usize;
    let mut first = true;
    loop {
        match sp.find_sysline_between_datetime_filters(fo1) {
            ResultS3::Found((fo, slp)) => {
                if k >= expected.len() {
                    panic!("C04: more messages than lines: {}", describe());
                }
                let got_ns: i128 = slp.dt().timestamp() as i128 * 1_000_000_000 + slp.dt().timestamp_subsec_nanos() as i128;
                let bytes = slp.verif_bytes();
                if bytes != expected[k].1 {
                    panic!("C04: message {} is not line {}: got {:?} want {:?}; {}", k, k, String::from_utf8_lossy(&bytes), String::from_utf8_lossy(&expected[k].1), describe());
                }
                if got_ns != expected[k].0 {
                    panic!("C04: line {:?} attributed {} expected {}; {}", String::from_utf8_lossy(&expected[k].1), got_ns, expected[k].0, describe());
                }
                k += 1;
                let is_last = sp.is_sysline_last(&slp);
                fo1 = fo;
                if first {
                    first = false;
                    if !is_last {
                        sp.process_stage3_stream_syslines();
                    }
                }
                if is_last {
                    break;
                }
            }
            ResultS3::Done => break,
            ResultS3::Err(e) => panic!("C04: error reading a well-formed log: {}; {}", e, describe()),
        }
    }
    if k != expected.len() {
        panic!("C04: {} messages for {} lines; {}", k, expected.len(), describe());
    }
});
