#![no_main]
//! C02/C07/C12 in-process: a structured text log decoded from the fuzzer's bytes is read through
//! `SyslogProcessor` with the same stage sequence as `exec_syslogprocessor`; the concatenated messages
//! must equal the file content from its first timestamped line, at a fuzzer-chosen block size.
use arbitrary::Unstructured;
use libfuzzer_sys::fuzz_target;
use s4lib::common::{FileOffset, FileType, FileTypeArchive, FileTypeTextEncoding, ResultS3};
use s4lib::readers::syslogprocessor::{FileProcessingResultBlockZero, SyslogProcessor};

fn clean(mut v: Vec<u8>) -> Vec<u8> {
    let mut prev = false;
    for b in v.iter_mut() {
        if *b == b'\n' {
            *b = b' ';
        }
        let d = b.is_ascii_digit();
        if d && prev {
            *b = b'x';
            prev = false;
        } else {
            prev = d;
        }
    }
    v
}

fn ts(t: i64) -> String {
    // 2017-07-14T02:40:00 + t seconds, rendered without chrono
    let base: i64 = 1_500_000_000 + t;
    let days = base.div_euclid(86400);
    let sod = base.rem_euclid(86400);
    let z = days + 719468;
    let era = z.div_euclid(146097);
    let doe = z - era * 146097;
    let yoe = (doe - doe / 1460 + doe / 36524 - doe / 146096) / 365;
    let y = yoe + era * 400;
    let doy = doe - (365 * yoe + yoe / 4 - yoe / 100);
    let mp = (5 * doy + 2) / 153;
    let d = doy - (153 * mp + 2) / 5 + 1;
    let m = if mp < 10 { mp + 3 } else { mp - 9 };
    let y = if m <= 2 { y + 1 } else { y };
    format!("{:04}-{:02}-{:02}T{:02}:{:02}:{:02}.000000+00:00", y, m, d, sod / 3600, sod % 3600 / 60, sod % 60)
}

fuzz_target!(|data: &[u8]| {
    let mut u = Unstructured::new(data);
    let bs: u64 = 64 + u.int_in_range(0u64..=448).unwrap_or(0);
    let n: usize = u.int_in_range(1usize..=10).unwrap_or(1);
    let mut content: Vec<u8> = vec![];
    let mut t = 0i64;
    let mut first_len = 0usize;
    for i in 0..n {
        t += u.int_in_range(0i64..=3).unwrap_or(0);
        let blen = u.int_in_range(0usize..=700).unwrap_or(0).min(u.len());
        let body = clean(u.bytes(blen).unwrap_or(&[]).to_vec());
        let start = content.len();
        content.extend_from_slice(ts(t).as_bytes());
        content.extend_from_slice(b" #");
        content.extend_from_slice(&body);
        content.push(b'\n');
        if i == 0 {
            first_len = content.len() - start;
        }
        let nc = u.int_in_range(0usize..=3).unwrap_or(0);
        for _ in 0..nc {
            let clen = u.int_in_range(0usize..=700).unwrap_or(0).min(u.len());
            let c = clean(u.bytes(clen).unwrap_or(&[]).to_vec());
            content.extend_from_slice(&c);
            content.push(b'\n');
        }
    }
    if !u.arbitrary::<bool>().unwrap_or(true) {
        content.pop();
    }
    // outside the block-zero acceptance heuristic (known finding F6): not part of this oracle
    if first_len as u64 > bs {
        return;
    }
    let path = format!("{}/fz-text-{}.log", std::env::var("VP_FZ_DIR").unwrap_or_else(|_| "/dev/shm".to_string()), std::process::id());
    std::fs::write(&path, &content).unwrap();
    let ft = FileType::Text { archival_type: FileTypeArchive::Normal, encoding_type: FileTypeTextEncoding::Utf8Ascii };
    let tz = chrono::FixedOffset::east_opt(0).unwrap();
    let mut sp = match SyslogProcessor::new(path.clone(), ft, bs, tz, None, None) {
        Ok(s) => s,
        Err(_) => return,
    };
    let _ = sp.process_stage0_valid_file_check();
    if !matches!(sp.process_stage1_blockzero_analysis(), FileProcessingResultBlockZero::FileOk) {
        return;
    }
    if !matches!(sp.process_stage2_find_dt(&None), FileProcessingResultBlockZero::FileOk) {
        return;
    }
    let mut got: Vec<u8> = vec![];
    let mut fo1: FileOffset = 0;
    let mut first = true;
    let mut last: Option<s4lib::data::sysline::SyslineP> = None;
    loop {
        match sp.find_sysline_between_datetime_filters(fo1) {
            ResultS3::Found((fo, slp)) => {
                got.extend_from_slice(&slp.verif_bytes());
                let is_last = sp.is_sysline_last(&slp);
                fo1 = fo;
                if first {
                    first = false;
                    if is_last {
                        break;
                    }
                    sp.process_stage3_stream_syslines();
                    last = Some(slp);
                    continue;
                }
                if is_last {
                    break;
                }
                if let Some(l) = last.take() {
                    sp.drop_data_try(&l);
                }
                last = Some(slp);
            }
            ResultS3::Done => break,
            ResultS3::Err(e) => panic!("C07: error reading a well-formed text log: {}", e),
        }
    }
    if got != content {
        let n = got.iter().zip(content.iter()).take_while(|(a, b)| a == b).count();
        panic!("C02: messages differ from file content at byte {} (bs {}, file {} bytes, got {} bytes)", n, bs, content.len(), got.len());
    }
});
