#![no_main]
//! C08/C07 in-process: the fuzzer's bytes are an accounting-record file (first byte picks the name-derived kind).
//! `FixedStructReader` is driven like `exec_fixedstructprocessor`. Oracles: no panic, no out-of-bounds read (ASan),
//! termination (every step advances), every record offset printed at most once, time values non-decreasing, and a
//! second read of the same bytes gives the same layout and the same records.
use libfuzzer_sys::fuzz_target;
use s4lib::common::{FileOffset, FileType, FileTypeArchive, FileTypeFixedStruct};
use s4lib::data::fixedstruct::ENTRY_SZ_MAX;
use s4lib::readers::fixedstructreader::{FixedStructReader, ResultFixedStructReaderNew, ResultS3FixedStructFind};

fn read_all(path: &str, kind: FileTypeFixedStruct) -> Option<(String, Vec<(FileOffset, Vec<u8>)>)> {
    let ft = FileType::FixedStruct { archival_type: FileTypeArchive::Normal, fixedstruct_type: kind };
    let tz = chrono::FixedOffset::east_opt(0).unwrap();
    let mut r = match FixedStructReader::new(path.to_string(), ft, 0xFFFF, tz, None, None) {
        ResultFixedStructReaderNew::FileOk(r) => r,
        _ => return None,
    };
    let layout = format!("{:?}", r.fixedstruct_type());
    let mut out = vec![];
    let mut fo = match r.fileoffset_first() {
        Some(fo) => fo,
        None => return Some((layout, out)),
    };
    let mut buffer = [0u8; ENTRY_SZ_MAX];
    let mut steps = 0usize;
    let mut prev_tv = None;
    loop {
        steps += 1;
        if steps > 100_000 {
            panic!("C07: no termination after 100000 steps (layout {})", layout);
        }
        let next = match r.process_entry_at(fo, &mut buffer) {
            ResultS3FixedStructFind::Found((fo_next, fs)) => {
                let tv = *fs.tv_pair();
                if let Some(p) = prev_tv {
                    if tv < p {
                        panic!("C08: time values go backwards: {:?} after {:?} (layout {})", tv, p, layout);
                    }
                }
                prev_tv = Some(tv);
                let mut buf = vec![0u8; 4096];
                let text = match fs.as_bytes(&mut buf) {
                    s4lib::data::fixedstruct::InfoAsBytes::Ok(n, ..) => buf[..n].to_vec(),
                    _ => vec![],
                };
                out.push((fs.fileoffset_begin(), text));
                fo_next
            }
            ResultS3FixedStructFind::Done => break,
            ResultS3FixedStructFind::Err((Some(fo_next), _)) => {
                if fo_next == fo {
                    panic!("C07: error without progress at offset {} (layout {})", fo, layout);
                }
                fo_next
            }
            ResultS3FixedStructFind::Err((None, _)) => break,
        };
        fo = next;
    }
    let mut offs: Vec<FileOffset> = out.iter().map(|x| x.0).collect();
    offs.sort();
    if offs.windows(2).any(|w| w[0] == w[1]) {
        panic!("C08: a record was delivered twice (layout {})", layout);
    }
    Some((layout, out))
}

fuzz_target!(|data: &[u8]| {
    if data.len() < 2 {
        return;
    }
    let kind = match data[0] % 6 {
        0 => FileTypeFixedStruct::Acct,
        1 => FileTypeFixedStruct::AcctV3,
        2 => FileTypeFixedStruct::Lastlog,
        3 => FileTypeFixedStruct::Lastlogx,
        4 => FileTypeFixedStruct::Utmp,
        _ => FileTypeFixedStruct::Utmpx,
    };
    let path = format!("{}/fz-fixed-{}.bin", std::env::var("VP_FZ_DIR").unwrap_or_else(|_| "/dev/shm".to_string()), std::process::id());
    std::fs::write(&path, &data[1..]).unwrap();
    let a = read_all(&path, kind);
    let b = read_all(&path, kind);
    if a != b {
        panic!("C08: two reads of the same file differ: {:?} vs {:?}", a.as_ref().map(|x| (&x.0, x.1.len())), b.as_ref().map(|x| (&x.0, x.1.len())));
    }
});
