#!/bin/bash
# Coverage-guided campaign (libFuzzer, ASan) for one target; part of the thorough tier.
# usage: run-fuzz.sh <target> <property> <runs> <seed>
# A crash artifact is converted into a replay file; exit 1 with VIOLATION if it reproduces, 2 on infrastructure trouble.
T="$1"; PROP="$2"; RUNS="${3:-200000}"; SEED="${4:-1}"
[ "$T" = fuzz_evtx ] && export VP_FUZZ_MAXLEN=${VP_FUZZ_MAXLEN:-70000}
cd /verif/harness/fuzz || exit 2
export CARGO_NET_OFFLINE=true
export RUSTFLAGS="--cfg s4_verif"
cp /repo/Cargo.lock Cargo.lock 2>/dev/null
if ! cargo +nightly fuzz build -O --fuzz-dir /verif/harness/fuzz --target-dir /verif/harness/target-fuzz "$T" >/verif/harness/locks/fuzz-build-$T.log 2>&1; then
  echo "run-fuzz: building $T failed"; tail -5 /verif/harness/locks/fuzz-build-$T.log; exit 2
fi
W=$(mktemp -d /dev/shm/vpfuzz.XXXXXX)
mkdir -p "$W/corpus" "$W/art" "$W/tmp"
export VP_FZ_DIR="$W/tmp"
cp corpus-seed/$T/* "$W/corpus/" 2>/dev/null
/verif/harness/target-fuzz/x86_64-unknown-linux-gnu/release/$T "$W/corpus" -runs=$RUNS -seed=$SEED -max_len=${VP_FUZZ_MAXLEN:-4096} -len_control=0 -timeout=25 -rss_limit_mb=12288 -malloc_limit_mb=1000000 -artifact_prefix="$W/art/" >"$W/log" 2>&1
rc=$?
execs=$(grep -o "Done [0-9]* runs" "$W/log" | grep -o "[0-9]*" | head -1)
cov=$(grep -o "cov: [0-9]*" "$W/log" | tail -1)
excl=""; [ -f "$W/tmp/excluded-f27" ] && excl=" excluded(known finding F27)=$(wc -c < "$W/tmp/excluded-f27")"; [ -f "$W/tmp/excluded-f28" ] && excl="$excl excluded(known finding F28)=$(wc -c < "$W/tmp/excluded-f28")"
echo "[$PROP] fuzz target=$T runs=${execs:-?} ${cov} corpus=$(ls "$W/corpus" | wc -l) exit=$rc$excl"
status=0
for a in "$W"/art/*; do
  [ -f "$a" ] || continue
  # resident memory above the 12 GiB budget is a resource report, not a property violation
  # a unit that ran into the per-unit time limit is re-run alone with a generous limit: only a unit that still does
  # not finish is a hang; a slow moment of the machine is not
  case "$(basename "$a")" in timeout-*)
    if VP_FZ_DIR="$W/tmp" /verif/harness/target-fuzz/x86_64-unknown-linux-gnu/release/$T -timeout=180 "$a" >"$W/replay.log" 2>&1; then
      echo "[$PROP] unit $(basename "$a") exceeded the time limit during the campaign but finishes alone: not a hang"; continue
    fi;;
  esac
  case "$(basename "$a")" in oom-*) echo "[$PROP] libFuzzer rss limit reached on $(basename "$a"): inconclusive"; [ $status -eq 0 ] && status=2; continue;; esac
  mkdir -p /verif/replays
  out="/verif/replays/$PROP-fuzz-$T-$(basename "$a")"
  cp "$a" "$out"
  echo "[$PROP] libFuzzer artifact $(basename "$a"): $(grep -m1 -i "panicked\|ERROR: \|SUMMARY" "$W/log" | cut -c1-200)"
  echo "VIOLATION property=$PROP replay=$out"
  status=1
done
rm -rf "$W"
exit $status
