#!/usr/bin/env python3
"""Regenerate /verif/MANIFEST.json from the table below (single source of truth for claims)."""
import json, subprocess

# property id -> (technique, level text, level note, design ref)
CLAIMS = {
 "C01": ("property-based testing (proptest): generated source sets x argument orders, reference-model oracle (stable k-way merge by (instant, position)), through the real s4 binary",
         "Exploration: hundreds to thousands of generated sets of 1..6 sources of all kinds with frequent cross-source ties; merged stdout must equal the reference merge byte for byte. Finds wrong tie-breaks, unstable order, lost/duplicated messages in the private merge loop. Thread interleavings are varied by C06, not here.",
         "Trusts: single-source runs of s4 as the per-source sequence for accounting-record/journal/evtx sources; generator truth for text.",
         "DESIGN.md section 4 C01"),
 "C02": ("property-based testing (proptest): generated text logs x block sizes, round-trip oracle against generator-known bytes, through the real s4 binary",
         "Exploration: hundreds (quick) to thousands (thorough) of generated text logs, each read at 3 block sizes with and without a sentinel message separator; stdout must equal the generator-known bytes and message boundaries. Finds dropped/duplicated/split/merged messages at block boundaries; cannot show absence.",
         "Trusts: the harness' own rendering of timestamps; the domain excludes files rejected by the block-zero heuristic (known finding F6) and lines with two adjacent digits outside the timestamp.",
         "DESIGN.md section 4 C02"),
 "C03": ("property-based testing (proptest): generated ordered logs x windows placed relative to message instants, reference-filter oracle A<=t<=B over generator-known instants",
         "Exploration: generated chronological text logs (plain => binary search; gz/bz2/xz/lz4/tar => linear scan) at block sizes 64..70000 with 1..4 windows each whose bounds sit on, +-1us/ms/s around, between, before and after message instants (A=B, one-sided); printed set must equal the inclusive filter, exit status 0 also when empty. Windows over accounting records are checked by the same oracle in C08.",
         "Trusts: harness timestamp rendering; bounds passed with microsecond resolution and explicit +00:00.",
         "DESIGN.md section 4 C03"),
 "C05": ("property-based testing (proptest): differential oracle container-vs-plain over generated contents and generated compressor parameters",
         "Exploration: generated text logs (small and 0.1-1.5 MB poorly compressible), synthesised accounting-record files, shipped journal/evtx and tiny raw files, wrapped by gz (flate2 levels/header fields; zlib flush points), bz2, xz, lz4 (all frame options) and tar (member position, decoys, long names) with generated parameters, read at block sizes 64..0xFFFFFF under optional windows; stdout must equal the plain-file run.",
         "Trusts: the plain-file run as reference (its own correctness is C02/C08/C09/C10). Known finding: xz with SHA-256 check (excluded by construction, probed).",
         "DESIGN.md section 4 C05"),
 "C08": ("property-based testing (proptest) + coverage-guided fuzzing (libFuzzer+ASan, thorough tier): synthesised record files for all 15 layouts, reference-model oracle (live records stable-sorted by time value) with every printed field parsed back; every case run twice in separate processes (determinism)",
         "Exploration: thousands of generated record files (duplicated/disordered/seconds-only times, null records interleaved) x containers x block sizes x windows; the printed sequence must be exactly the live records in stable time order and each line must carry that record's own string fields, pid and time.",
         "Trusts: struct offsets/sizes from s4lib's public definitions; layout detection is outside the property (mis-detected cases discarded and counted).",
         "DESIGN.md section 4 C08"),
 "C12": ("property-based testing (proptest) + exhaustive small-scope enumeration: metamorphic oracle (stdout at any block size == stdout at 65536 == model) and in-process LineReader tiling oracle",
         "Exploration + bounded-exhaustive: generated logs/containers/windows run at 5 block sizes from a boundary-rich pool incl. 64 and 0xFFFFFF; in-process LineReader at block sizes 1..len+2 on generated contents, and every content over {\\n,a,1} up to length 7 at every block size 1..len+1 (exhaustive).",
         "Trusts: the 65536 run as metamorphic reference (additionally compared with the generator model); files outside the block-zero heuristic excluded (F6).",
         "DESIGN.md section 4 C12"),
 "C04": ("property-based testing (proptest) + coverage-guided fuzzing (libFuzzer, thorough tier): generated (notation template, instant, zone spelling, fraction digits, case variant, -t) tuples, round-trip oracle through `s4 -u -d %s.%9f` and, in-process, through SyslogProcessor",
         "Exploration: thousands of files of 20..60 timestamps each over 32 notation templates covering every family the statement names; the instant s4 attributes to every line must equal the generated instant to the written nanosecond, and every line must be its own message. Days stratified over 1970-01-02..2099-12-30, offsets in 15-minute steps, every upper-case zone abbreviation of the project's table. Thorough tier adds a libFuzzer campaign (harness/fuzz fuzz_dt) that decodes the same grammar from bytes and checks the instant of every message in-process.",
         "Trusts: harness civil-time arithmetic (independent of chrono); frozen copy of the zone abbreviation table; notations outside the templates are not covered.",
         "DESIGN.md section 4 C04"),
 "C13": ("property-based testing (proptest): generated option tuples x sources x file names, constructive expected-output oracle",
         "Exploration: generated combinations of -n/-p/-w, -u/-l/-z, -d FORMAT, --prepend-separator, --separator (all escapes), --color over 1..3 sources of all kinds with generated (incl. non-ASCII and wide) file names; stdout (minus SGR sequences for --color always) must equal the decoration constructed from the undecorated messages.",
         "Trusts: harness strftime subset; instants of non-text messages from a single-source run; TZ=UTC.",
         "DESIGN.md section 4 C13"),
 "C16": ("property-based testing (proptest) + exhaustive enumeration of the finite core: independent reference classifier and metamorphic relations over generated file names, in-process",
         "Exploration + bounded-exhaustive: ~630k grammar names enumerated exhaustively (type word x case x stem/extension x rotation comps x compression x junk) plus 20k..400k random grammar and arbitrary (non-UTF-8, dots, 5 KB) names per run; classification must equal the reference, be invariant under case/rotation/junk decoration, and terminate without panic for every name (a stack overflow of the harness process is attributed to the in-flight case by ./check).",
         "Trusts: the reference classifier transcribed from the property statement; bare `evtx` and double compression suffixes are outside the grammar.",
         "DESIGN.md section 4 C16"),
 "C19": ("property-based testing (proptest): summary parsed and compared with counts derived from stdout and from the reference merge",
         "Exploration: generated source sets x decoration tuples x windows, each run with and without --summary; stdout must be unchanged, `Printed bytes/lines/messages`, the per-file sums, first/last printed datetimes and resolved filter bounds must equal values computed independently from stdout and the model.",
         "Trusts: summary text layout (labels) as of this tree; colour sequences are not counted in Printed bytes (weaker reading).",
         "DESIGN.md section 4 C19"),
 "C14": ("property-based testing (proptest): generated filter arguments from the documented grammar, independent resolution oracle observed through the summary and a microsecond probe log",
         "Exploration: generated absolute (4 shapes x fraction x zone spelling x spacing), bare-date, +epoch, relative-to-now (fixed `now` hook) and '@' relative-to-other values under -t in 15-minute steps; the resolved bound must equal the independently computed instant, to the second in the summary and to the microsecond through a probe log (inclusive semantics); certainly-invalid values, every ambiguous zone name, double '@' and after>before must be rejected with non-zero status and no output.",
         "Trusts: S4_VERIF_NOW hook for `now`; harness civil-time arithmetic; frozen zone table.",
         "DESIGN.md section 4 C14"),
 "C11": ("property-based testing (proptest): generated year-less logs with known true instants x modification times x zones x containers, round-trip oracle through `s4 -u -d %s.%9f`",
         "Exploration: thousands of generated year-less logs (5 notations) spanning 0..several year boundaries with gaps < 360 days, mtime anywhere in the last message's local year (incl. first/last second), -t in 15-minute steps, stored plain/gz (header mtime)/tar (member mtime)/bz2/xz/lz4, block sizes 64..65536, optional windows; the instant attributed to every message must equal the true instant and window selection must follow the true instants.",
         "Trusts: harness civil-time arithmetic; excluded by construction: Issue #245 (29 Feb followed by a later year) and known finding F17 (29 Feb directly after an earlier year, probed).",
         "DESIGN.md section 4 C11"),
 "C15": ("property-based testing (proptest): generated directory trees and stdin splits, differential oracle directory-run vs explicit reference expansion",
         "Exploration: generated trees (nesting, spaces, non-ASCII and hidden names, compressed/tar/utmp/non-log/tiny files, symlinks to files and directories) whose files all carry messages at the same instants so order is observable; stdout(s4 DIR) must equal stdout(s4 <sorted expansion, symlinks followed, non-log names removed>), a generated split of the list between arguments and stdin must give the same output, and an explicitly named non-log file must be attempted.",
         "Trusts: the reference expansion written from the statement; symlink and target names classify identically by construction.",
         "DESIGN.md section 4 C15"),
 "C17": ("property-based testing (proptest): metamorphic oracle over files of growing size built from a generated unit, high-water marks read from --summary",
         "Exploration: a generated unit of messages (lines well below the block size, messages spanning blocks through continuation lines) repeated k, 4k, 16k times, block sizes 256..4096 and 65536, plain/gz/bz2/lz4, optional -a search; `blocks high`, `lines high`, `syslines high` of the largest file may exceed the middle file's only by a constant (strict at the default block size) and never by half or more of the added data. Three known findings (probed / excluded by construction).",
         "Trusts: the --summary high-water marks; constants calibrated on the unchanged tree. Known findings: newline on block end (plain), lines longer than a block, slow creep from failed drops at small block sizes.",
         "DESIGN.md section 4 C17"),
 "C06": ("property-based testing (proptest) with harness-owned schedules: generated send-order plans and seeded jitter through cfg-guarded hooks, differential output oracle + history invariants over recorded traces",
         "Exploration of schedules: each generated source set (1..8 sources, channels that fill, sources without messages) is run schedule-free and under 3..12 enforced schedules; stdout and exit status must be identical and equal to the reference merge, the run must end (deadlock classified from /proc), and every recorded trace must satisfy the protocol invariants (pending-set minimum printed, no print while a live source lacks a message, exactly-once, no live source at the end).",
         "Trusts: the s4_verif hooks (send turnstile, jitter, trace); schedules are sampled not enumerated; preemption inside hook-free regions is not controlled.",
         "DESIGN.md section 4 C06"),
 "C18": ("property-based testing (proptest) over signal instants (fault injection): SIGINT delivered by the harness at generated instants, invariant TMPDIR-empty-after-exit",
         "Fault-instant exploration: 1..6 compressed/archived journal and evtx sources extracted concurrently, extraction and temp-file registration stretched through hooks, one unsignalled and 4..16 signalled runs per case with instants uniform over the run, dense in the first 6 ms and just before the end; after exit the private TMPDIR must be empty and exit status 0/1 (or death by SIGINT before the handler exists); a signalled run must not simply run on (decidable for stretched runs).",
         "Trusts: hooks for stretching; instants controlled to ~50-300 us; crash points sampled not enumerated. Known finding: interrupt before the first delivered message waits for the next datum.",
         "DESIGN.md section 4 C18"),
 "C07": ("property-based testing / fault injection (proptest) plus a stratified small-scope sweep, and coverage-guided fuzzing (libFuzzer+ASan, thorough tier: fuzz_text, fuzz_container): generated faults on valid files of every kind incl. format-aware header damage with valid checksums, robustness + neighbour-integrity oracle through the real binary",
         "Fault exploration: a deterministic sweep (every cut and single damaged byte in the first and last 16 bytes, appended bytes, for small text and record files in 9 container variants) and thousands of generated (base file, fault) pairs over text, accounting records, shipped evtx/journals and their compressed/archived forms, random bytes and name/content mismatches, alone or beside 1..3 valid sources at a generated position; exit status must be 0/1 without signal or panic, the run must end, and the neighbours' lines must be complete and in reference order.",
         "Trusts: neighbour attribution through -n prefixes; the 120 s watchdog. A libFuzzer campaign over the readers is the thorough tier's complement (harness/fuzz).",
         "DESIGN.md section 4 C07"),
 "C09": ("property-based testing (proptest) with a differential oracle against an independent reader (journalctl --file -o export)",
         "Exploration over the available input space: 4 journal files x 10 renderings x windows relative to actual entry times (incl. exact microsecond equality and duplicated times) x containers x -t values; entry count and order must equal journalctl's listing filtered A<=t<=B, export entries must be exactly the stored fields, cat the MESSAGE text, other renderings must carry the MESSAGE, containers must print the same as the plain file.",
         "Trusts: journalctl (systemd 252) as the independent reader; timestamps of short* renderings are not compared (Issue #101). Only shipped journals (no writer available).",
         "DESIGN.md section 4 C09"),
 "C10": ("property-based testing (proptest) with a differential oracle against an independent reader (evtx crate, single-threaded)",
         "Exploration over the available input space: 2 shipped evtx files x windows relative to actual record times x containers x block sizes; the printed (EventRecordID, TimeCreated) sequence must equal the independent listing stable-sorted by creation time and filtered A<=t<=B.",
         "Trusts: the evtx crate run single-threaded as independent reader. Only shipped evtx files (no writer available).",
         "DESIGN.md section 4 C10"),
}
PENDING_REASON = "check not built yet in this session (planned in DESIGN.md section 4); not claimed until its check exists and is silent on the unchanged tree"

def main():
    props = [json.loads(l) for l in open('/verif/properties.jsonl')]
    hooks_commits = []
    try:
        out = subprocess.run(['git','-C','/repo','log','--format=%H %s'],capture_output=True,text=True).stdout
        for line in out.splitlines():
            h, _, s = line.partition(' ')
            if s.startswith('verif-hook:'):
                hooks_commits.append(h)
    except Exception:
        pass
    checks = []
    na = []
    for p in props:
        pid = p['id']
        if pid in CLAIMS:
            tech, text, note, ref = CLAIMS[pid]
            checks.append({
                "property_id": pid,
                "quick_cmd": f"./check {pid} quick",
                "thorough_cmd": f"./check {pid} thorough",
                "evidence_file": f"/verif/evidence/{pid}.json",
                "replay_cmd_template": f"./check {pid} --replay {{path}}",
                "engine": "vp",
                "level_claimed": {"category": "exploration", "text": text, "design_ref": ref},
                "level_note": note,
                "technique": tech,
            })
        else:
            na.append({"property_id": pid, "reason": PENDING_REASON})
    m = {
        "version": 1,
        "setup_cmd": "./check --build",
        "hooks": {
            "guard": "--cfg s4_verif",
            "enable": "RUSTFLAGS='--cfg s4_verif' (set by harness/build-s4.sh and harness/build-vp.sh for every build of /repo)",
            "baseline_off_cmd": "cd /repo && cargo nextest run --workspace --no-fail-fast --test-threads 8 --offline || cargo test --workspace --no-fail-fast --offline",
            "source_commits": hooks_commits,
            "add_only": True,
        },
        "engines": [
            {"name": "vp", "path": "/verif/harness/vp", "serves_properties": sorted(CLAIMS.keys()),
             "kind_free_text": "Rust binary driving proptest 1.11 TestRunners (16 threads, ChaCha seeded from VERIF_SEED) over case descriptors; executes the real s4 binary built from /repo's working tree (and s4lib in-process where a pure library function carries the property); shrinks failures to replay files"},
        ],
        "checks": checks,
        "not_applicable": na,
        "notes": "All checks: ./check <id> quick|thorough ; exit 0 held, 1 VIOLATION, 2 inconclusive/infrastructure. Known findings: /verif/known_findings.jsonl.",
    }
    json.dump(m, open('/verif/MANIFEST.json','w'), indent=1)
    print("claimed:", sorted(CLAIMS.keys()))

main()
