#!/usr/bin/env python3
"""Regenerate /verif/MANIFEST.json from the table below (single source of truth for claims)."""
import json, subprocess

# property id -> (technique, level text, level note, design ref)
CLAIMS = {
 "C02": ("property-based testing (proptest): generated text logs x block sizes, round-trip oracle against generator-known bytes, through the real s4 binary",
         "Exploration: hundreds (quick) to thousands (thorough) of generated text logs, each read at 3 block sizes with and without a sentinel message separator; stdout must equal the generator-known bytes and message boundaries. Finds dropped/duplicated/split/merged messages at block boundaries; cannot show absence.",
         "Trusts: the harness' own rendering of timestamps; the domain excludes files rejected by the block-zero heuristic (known finding F6) and lines with two adjacent digits outside the timestamp.",
         "DESIGN.md section 4 C02"),
}
PENDING_REASON = "check not built yet in this session (planned in DESIGN.md section 4); not claimed until its check exists and is silent on the unchanged tree"

def main():
    props = [json.loads(l) for l in open('/verif/properties.jsonl')]
    hooks_commits = []
    try:
        out = subprocess.run(['git','-C','/repo','log','--format=%H %s'],capture_output=True,text=True).stdout
        for line in out.splitlines():
            h, _, s = line.partition(' ')
            if s.startswith('verif-hook:'):
                hooks_commits.append(h)
    except Exception:
        pass
    checks = []
    na = []
    for p in props:
        pid = p['id']
        if pid in CLAIMS:
            tech, text, note, ref = CLAIMS[pid]
            checks.append({
                "property_id": pid,
                "quick_cmd": f"./check {pid} quick",
                "thorough_cmd": f"./check {pid} thorough",
                "evidence_file": f"/verif/evidence/{pid}.json",
                "replay_cmd_template": f"./check {pid} --replay {{path}}",
                "engine": "vp",
                "level_claimed": {"category": "exploration", "text": text, "design_ref": ref},
                "level_note": note,
                "technique": tech,
            })
        else:
            na.append({"property_id": pid, "reason": PENDING_REASON})
    m = {
        "version": 1,
        "setup_cmd": "./check --build",
        "hooks": {
            "guard": "--cfg s4_verif",
            "enable": "RUSTFLAGS='--cfg s4_verif' (set by harness/build-s4.sh and harness/build-vp.sh for every build of /repo)",
            "baseline_off_cmd": "cd /repo && cargo nextest run --workspace --no-fail-fast --test-threads 8 --offline || cargo test --workspace --no-fail-fast --offline",
            "source_commits": hooks_commits,
            "add_only": True,
        },
        "engines": [
            {"name": "vp", "path": "/verif/harness/vp", "serves_properties": sorted(CLAIMS.keys()),
             "kind_free_text": "Rust binary driving proptest 1.11 TestRunners (16 threads, ChaCha seeded from VERIF_SEED) over case descriptors; executes the real s4 binary built from /repo's working tree (and s4lib in-process where a pure library function carries the property); shrinks failures to replay files"},
        ],
        "checks": checks,
        "not_applicable": na,
        "notes": "All checks: ./check <id> quick|thorough ; exit 0 held, 1 VIOLATION, 2 inconclusive/infrastructure. Known findings: /verif/known_findings.jsonl.",
    }
    json.dump(m, open('/verif/MANIFEST.json','w'), indent=1)
    print("claimed:", sorted(CLAIMS.keys()))

main()
