#!/usr/bin/python3
"""Container writers the Rust harness does not have (python3 stdlib only).
usage: mkcontainers.py <kind> <in> <out> [params as k=v ...]
 kinds:
  bz2      level=1..9
  xz       preset=0..9 check=none|crc32|crc64|sha256
  gzflush  level=0..9 flush=full|sync points=off1,off2,...  mtime=N name=STR
  tar      format=ustar|gnu|pax member=NAME mtime=N pos=K decoys=N  (member data = <in>)
"""
import sys, bz2, lzma, zlib, tarfile, io, struct, time

def main():
    kind, inp, outp = sys.argv[1:4]
    kv = dict(a.split('=', 1) for a in sys.argv[4:])
    data = open(inp, 'rb').read()
    if kind == 'bz2':
        out = bz2.compress(data, int(kv.get('level', 9)))
    elif kind == 'xz':
        chk = {'none': lzma.CHECK_NONE, 'crc32': lzma.CHECK_CRC32, 'crc64': lzma.CHECK_CRC64, 'sha256': lzma.CHECK_SHA256}[kv.get('check', 'crc64')]
        out = lzma.compress(data, format=lzma.FORMAT_XZ, check=chk, preset=int(kv.get('preset', 6)))
    elif kind == 'gzflush':
        level = int(kv.get('level', 6))
        mtime = int(kv.get('mtime', 0))
        name = kv.get('name', '')
        flush = zlib.Z_FULL_FLUSH if kv.get('flush', 'full') == 'full' else zlib.Z_SYNC_FLUSH
        points = sorted(set(int(x) for x in kv.get('points', '').split(',') if x))
        flags = 0x08 if name else 0
        hdr = struct.pack('<BBBBIBB', 0x1f, 0x8b, 8, flags, mtime & 0xffffffff, 0, 3)
        if name:
            hdr += name.encode('latin-1', 'replace') + b'\0'
        co = zlib.compressobj(level, zlib.DEFLATED, -15)
        body = b''
        prev = 0
        for p in points:
            p = min(p, len(data))
            body += co.compress(data[prev:p]) + co.flush(flush)
            prev = p
        body += co.compress(data[prev:]) + co.flush(zlib.Z_FINISH)
        out = hdr + body + struct.pack('<II', zlib.crc32(data) & 0xffffffff, len(data) & 0xffffffff)
    elif kind == 'tar':
        fmt = {'ustar': tarfile.USTAR_FORMAT, 'gnu': tarfile.GNU_FORMAT, 'pax': tarfile.PAX_FORMAT}[kv.get('format', 'gnu')]
        member = kv.get('member', 'a.log')
        mtime = int(kv.get('mtime', 0))
        bio = io.BytesIO()
        with tarfile.open(fileobj=bio, mode='w', format=fmt) as tf:
            ti = tarfile.TarInfo(member)
            ti.size = len(data)
            ti.mtime = mtime
            tf.addfile(ti, io.BytesIO(data))
        out = bio.getvalue()
    else:
        sys.exit('unknown kind ' + kind)
    open(outp, 'wb').write(out)

main()
