#!/bin/bash
# Apply a seeded change to /repo, run a command, and undo exactly that change again.
# usage: with-seed.sh <seed-dir> <command...>
SEED="$(realpath "$1")"; shift
git -C /repo apply "$SEED/patch.diff" || { echo "with-seed: patch does not apply"; exit 2; }
VP_EVIDENCE_DIR=/tmp/vp-evidence-seeded "$@"; rc=$?
git -C /repo apply -R "$SEED/patch.diff" || echo "with-seed: WARNING could not revert $SEED"
exit $rc
