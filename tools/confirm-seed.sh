#!/bin/bash
# Confirm a seeded change independently, in a scratch worktree (never in /repo):
#  1. demo passes on the unchanged tree, 2. patch applies and compiles, 3. demo fails with the patch,
#  4. the pinned test suite still passes with the patch.  Writes a log and prints a one-line verdict.
# usage: confirm-seed.sh <seed-dir containing patch.diff and demo.sh> [worktree]
SEED="$1"; WT="${2:-/tmp/wt-confirm}"
set -u
export CARGO_NET_OFFLINE=true
if [ ! -d "$WT" ]; then
  git -C /repo worktree add -q --detach "$WT" HEAD || exit 2
  cp -r /repo/target "$WT/target"
fi
cd "$WT" || exit 2
git checkout -q -- . ; git checkout -q --detach "$(git -C /repo rev-parse HEAD)" || exit 2
export CARGO_TARGET_DIR="$WT/target"
build() { cargo build --offline --release --bin s4 --config 'profile.release.lto=false' --config 'profile.release.codegen-units=16' >"$WT/build.log" 2>&1; }
build || { echo "VERDICT $SEED: clean tree does not build"; exit 2; }
bash "$SEED/demo.sh" "$WT/target/release/s4" >"$WT/demo-clean.log" 2>&1; rc_clean=$?
git apply "$SEED/patch.diff" || { echo "VERDICT $SEED: patch does not apply"; exit 1; }
build || { echo "VERDICT $SEED: patched tree does not build"; git checkout -q -- .; exit 1; }
bash "$SEED/demo.sh" "$WT/target/release/s4" >"$WT/demo-patched.log" 2>&1; rc_patched=$?
bash /verif/tools/baseline.sh "$WT" >"$WT/baseline.log" 2>&1; rc_base=$?
git checkout -q -- .
echo "VERDICT $SEED: demo_clean_rc=$rc_clean demo_patched_rc=$rc_patched baseline_rc=$rc_base ($(grep -o 'passed=.*' "$WT/baseline.log" | head -1))"
[ $rc_clean -eq 0 ] && [ $rc_patched -ne 0 ] && [ $rc_base -eq 0 ]
