#!/bin/bash
# Run every check's quick tier under several seeds on the unchanged tree; any VIOLATION / non-zero exit is listed.
# usage: seed-sweep.sh "<seeds>" "<ids>"   (run from a /verif checkout; uses ./check when present in cwd, else /verif/check)
SEEDS=${1:-"1 2 3 4 5 6"}
IDS=${2:-"C01 C02 C03 C04 C05 C06 C07 C08 C09 C10 C11 C12 C13 C14 C15 C16 C17 C18 C19"}
export VP_EVIDENCE_DIR=/tmp/vp-evidence-sweep
bad=0
for s in $SEEDS; do
  for id in $IDS; do
    out=$(VERIF_SEED=$s /verif/check $id quick 2>&1); rc=$?
    line=$(echo "$out" | grep "tier=" | head -1 | cut -c1-140)
    if [ $rc -ne 0 ] || echo "$out" | grep -q "^VIOLATION"; then
      bad=$((bad+1)); echo "ALARM seed=$s $id rc=$rc"; echo "$out" | grep "failure sig\|VIOLATION\|INCONCLUSIVE" | cut -c1-700 | head -4
    else
      echo "ok seed=$s $line"
    fi
  done
done
echo "alarms=$bad"
