#!/bin/bash
# validate MANIFEST.json and evidence files against the schemas
python3-vt - <<'PY'
import json,jsonschema,glob
jsonschema.validate(json.load(open('/verif/MANIFEST.json')), json.load(open('/root/.vp/MANIFEST.schema.json')))
print('MANIFEST ok')
es=json.load(open('/root/.vp/EVIDENCE.schema.json'))
for f in sorted(glob.glob('/verif/evidence/*.json')):
    try:
        jsonschema.validate(json.load(open(f)), es); print(f,'ok')
    except Exception as e:
        print(f,'INVALID',str(e)[:300])
PY
