#!/bin/bash
# Run the repository's pinned test suite with the verif guard OFF, in a given tree (default /repo),
# and compare the passing set with BASELINE.json's stable_pass list.
# usage: baseline.sh [repo_dir]   ; exit 0 iff every stable_pass test passed
REPO="${1:-/repo}"
cd "$REPO" || exit 2
unset RUSTFLAGS
export CARGO_NET_OFFLINE=true
OUT=$(mktemp /tmp/baseline.XXXXXX)
cargo nextest run --workspace --no-fail-fast --test-threads 8 --offline --status-level pass --final-status-level none >"$OUT" 2>&1
python3 - "$OUT" <<'PY'
import json,re,sys
out=open(sys.argv[1],errors='replace').read()
passed=set()
for m in re.finditer(r'^\s+(?:PASS|LEAK) \[[^\]]*\]\s+(?:\(\s*\d+/\d+\)\s+)?(\S+)\s+(\S+)\s*$', out, re.M):
    passed.add(m.group(1)+'::'+m.group(2))
base=json.load(open('/root/.vp/BASELINE.json'))['stable_pass']
missing=[t for t in base if t not in passed]
print(f"passed={len(passed)} baseline={len(base)} baseline_missing={len(missing)}")
for t in missing[:40]: print("  MISSING", t)
sys.exit(0 if not missing else 1)
PY
rc=$?
tail -3 "$OUT"
rm -f "$OUT"
exit $rc
