#!/usr/bin/env python3
"""Record in each seeded/<id>/meta.json what the verifier itself ran: independent confirmation
(tools/confirm-seed.sh, from seeded/CONFIRM.log and earlier logs) and detection by the checks (seeded/RESULTS.tsv)."""
import json, os, re, glob
root = '/verif/seeded'
confirm = {}
for f in ['CONFIRM.log', 'CONFIRM-early.log']:
    p = os.path.join(root, f)
    if os.path.exists(p):
        for line in open(p):
            m = re.match(r'VERDICT /verif/seeded/(\S+): (.*)', line.strip())
            if m:
                confirm[m.group(1)] = m.group(2)
results = {}
p = os.path.join(root, 'RESULTS.tsv')
if os.path.exists(p):
    for line in open(p).read().splitlines()[1:]:
        f = line.split('\t')
        if len(f) >= 4:
            results[f[0]] = {'check': f[1], 'detected': f[2], 'seconds': f[3], 'first_failure': f[4] if len(f) > 4 else ''}
for d in sorted(glob.glob(root + '/*/')):
    s = os.path.basename(d.rstrip('/'))
    mp = os.path.join(d, 'meta.json')
    if not os.path.exists(mp):
        continue
    try:
        m = json.load(open(mp))
    except Exception as e:
        m = {'property': s.split('-')[0], 'note': 'original meta.json was not valid JSON: %s' % e}
    v = m.setdefault('verifier', {})
    if s in confirm:
        v['confirmed_independently'] = {
            'how': 'tools/confirm-seed.sh in scratch worktree /tmp/wt-confirm: demo.sh on clean HEAD build, patch applied + release-like build, demo.sh again, tools/baseline.sh (pinned suite vs BASELINE stable_pass) with the patch',
            'verdict': confirm[s]}
    if s in results:
        v['run_against_checks'] = {'how': 'tools/with-seed.sh seeded/%s ./check %s quick (git apply to /repo, run, git apply -R)' % (s, results[s]['check']), **results[s]}
    json.dump(m, open(mp, 'w'), indent=1)
    print(s, 'confirmed' if s in confirm else '-', results.get(s, {}).get('detected', '-'))
