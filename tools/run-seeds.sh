#!/bin/bash
# Run every seeded change under /verif/seeded against the check of the property it breaks (quick tier).
# Writes /verif/seeded/RESULTS.tsv : seed, property, detected(yes/no/patch-failed), seconds, signature line
cd /verif || exit 2
final=/verif/seeded/RESULTS.tsv
out=$(mktemp /tmp/run-seeds.XXXXXX)
echo -e "seed\tproperty\tdetected\tseconds\tfirst_failure" > $out
for d in ${SEEDS:-seeded/*/}; do
  s=$(basename $d)
  [ -f $d/patch.diff ] || continue
  prop=$(python3 -c "import json,sys;print(json.load(open('$d/meta.json'))['property'])" 2>/dev/null || echo ${s%%-*})
  # a seed may be caught by the check of a neighbouring property (recorded in <seed>/check_property)
  chk=$prop; [ -f $d/check_property ] && chk=$(cat $d/check_property)
  if ! git -C /repo apply --check $(realpath $d/patch.diff) 2>/dev/null; then
    echo -e "$s\t$prop\tpatch-does-not-apply\t0\t" >> $out; continue
  fi
  t0=$(date +%s)
  log=$(tools/with-seed.sh $d ./check $chk quick 2>&1)
  rc=$?
  t1=$(date +%s)
  first=$(echo "$log" | grep -a -m1 "failure sig" | cut -c1-160 | tr -c '[:print:]' ' ')
  if echo "$log" | grep -q "^VIOLATION property=$chk"; then det=yes; else det=no; fi
  [ "$chk" != "$prop" ] && [ $det = yes ] && det="yes(by $chk)"
  echo -e "$s\t$prop\t$det\t$((t1-t0))\t$first" >> $out
done
git -C /repo status --short
# merge: rows of the seeds just run replace the rows of the same seeds in the committed table
python3 - "$out" "$final" <<'PY'
import sys
new, final = sys.argv[1], sys.argv[2]
rows = {}
hdr = "seed\tproperty\tdetected\tseconds\tfirst_failure"
for path in (final, new):
    try:
        for line in open(path, errors='replace').read().split('\n')[1:]:
            if line.strip():
                rows[line.split('\t')[0]] = line
    except FileNotFoundError:
        pass
open(final, 'w').write(hdr + '\n' + '\n'.join(rows[k] for k in sorted(rows)) + '\n')
PY
cat $out | cut -c1-200
rm -f $out
